(set-logic ALL)
(declare-sort BStr 0)
(define-sort Arr () (Array Int (_ BitVec 8)))
(declare-fun bs (Arr Int Int) BStr)          ; content of window
(declare-fun blen (BStr) Int)
(declare-fun bat (BStr Int) (_ BitVec 8))
(declare-fun Seal (BStr BStr BStr) BStr)     ; (nonce, pt, ad) under fixed key
(declare-fun OpenOK (BStr BStr BStr) Bool)
(declare-fun OpenPT (BStr BStr BStr) BStr)
; axioms of bs: element access and length
(assert (forall ((a Arr) (o Int) (n Int) (i Int)) (! (=> (and (<= 0 i) (< i n)) (= (bat (bs a o n) i) (select a (+ o i)))) :pattern ((bat (bs a o n) i)))))
(assert (forall ((a Arr) (o Int) (n Int)) (! (=> (<= 0 n) (= (blen (bs a o n)) n)) :pattern ((bs a o n)))))
; trusted stdlib axiom: Open(Seal(n,p,ad), n, ad) = p, len(Seal)=len(p)+16
(assert (forall ((n BStr) (p BStr) (ad BStr)) (! (and (OpenOK n (Seal n p ad) ad) (= (OpenPT n (Seal n p ad) ad) p) (= (blen (Seal n p ad)) (+ (blen p) 16))) :pattern ((Seal n p ad)))))
; --- Encrypt ---
(declare-const P Arr) (declare-const po Int) (declare-const pl Int)   ; prefix
(declare-const PT Arr) (declare-const pto Int) (declare-const n Int)  ; plaintext
(declare-const AD Arr) (declare-const ado Int) (declare-const adl Int)
(assert (and (<= 0 pl) (<= pl 5) (<= 0 n) (<= 0 adl)))
(declare-const D0 Arr) (declare-const D1 Arr) (declare-const D2 Arr) (declare-const D3 Arr)
(declare-const RND Arr)
; copy(dst, prefix)
(assert (forall ((i Int)) (! (= (select D1 i) (ite (and (<= 0 i) (< i pl)) (select P (+ po i)) (select D0 i))) :pattern ((select D1 i)))))
; MustRand(iv) iv = dst[pl:pl+12]
(assert (forall ((i Int)) (! (= (select D2 i) (ite (and (<= pl i) (< i (+ pl 12))) (select RND (- i pl)) (select D1 i))) :pattern ((select D2 i)))))
; Seal appends at pl+12
(define-fun sealed () BStr (Seal (bs D2 pl 12) (bs PT pto n) (bs AD ado adl)))
(assert (forall ((i Int)) (! (= (select D3 i) (ite (and (<= (+ pl 12) i) (< i (+ pl 12 n 16))) (bat sealed (- i (+ pl 12))) (select D2 i))) :pattern ((select D3 i)))))
; --- Decrypt on ct = D3[0 : pl+28+n] ---
(define-fun ctlen () Int (+ pl 28 n))
; extensionality instances needed (engine-generated): iv window in D3 vs D2 ; ct window vs sealed
(declare-fun diff1 () Int)
(assert (=> (not (= (bs D3 pl 12) (bs D2 pl 12))) (and (<= 0 diff1) (< diff1 12) (not (= (select D3 (+ pl diff1)) (select D2 (+ pl diff1)))))))
(declare-fun diff2 () Int)
(assert (=> (not (= (bs D3 (+ pl 12) (+ n 16)) sealed)) (and (<= 0 diff2) (< diff2 (+ n 16)) (not (= (select D3 (+ pl 12 diff2)) (bat sealed diff2))))))
; goal: prefix check passes, OpenOK, and plaintext equal
(assert (not (and
   (>= ctlen (+ pl 28))
   (forall ((i Int)) (=> (and (<= 0 i) (< i pl)) (= (select D3 i) (select P (+ po i)))))
   (OpenOK (bs D3 pl 12) (bs D3 (+ pl 12) (- ctlen (+ pl 12))) (bs AD ado adl))
   (= (OpenPT (bs D3 pl 12) (bs D3 (+ pl 12) (- ctlen (+ pl 12))) (bs AD ado adl)) (bs PT pto n)))))
(check-sat)
