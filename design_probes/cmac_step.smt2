(set-logic ALL)
(define-sort Blk () (_ BitVec 128))
(define-sort Arr () (Array Int (_ BitVec 8)))
(declare-fun E (Blk) Blk)
(declare-fun cbc (Arr Int Int) Blk)    ; cbc(msg, off0, i): chaining value after i full blocks of msg starting at off0
(define-fun blk ((a Arr) (o Int)) Blk (concat (select a o) (select a (+ o 1)) (select a (+ o 2)) (select a (+ o 3)) (select a (+ o 4)) (select a (+ o 5)) (select a (+ o 6)) (select a (+ o 7)) (select a (+ o 8)) (select a (+ o 9)) (select a (+ o 10)) (select a (+ o 11)) (select a (+ o 12)) (select a (+ o 13)) (select a (+ o 14)) (select a (+ o 15))))
; unfolding axioms (engine emits the instances it needs; here quantified with pattern)
(assert (forall ((m Arr) (o Int)) (! (= (cbc m o 0) (_ bv0 128)) :pattern ((cbc m o 0)))))
(assert (forall ((m Arr) (o Int) (i Int)) (! (=> (>= i 0) (= (cbc m o (+ i 1)) (E (bvxor (cbc m o i) (blk m (+ o (* 16 i))))))) :pattern ((cbc m o (+ i 1))))))
; loop state at head: i, output array OUT (16 bytes at 0..15), data window = msg[off0+16i : ...]
(declare-const M Arr) (declare-const off0 Int) (declare-const n Int) (declare-const nb Int) (declare-const i Int)
(declare-const OUT Arr)
(assert (and (<= 0 i) (< i nb) (<= (* 16 nb) n) (>= off0 0)))
(assert (= (blk OUT 0) (cbc M off0 i)))        ; invariant
; body: XORBytes(output, data[:16], output); Encrypt(output, output)
(declare-const OUT2 Arr)
(assert (= (blk OUT2 0) (E (bvxor (blk M (+ off0 (* 16 i))) (blk OUT 0)))))
; goal: invariant at i+1
(assert (not (= (blk OUT2 0) (cbc M off0 (+ i 1)))))
(check-sat)
