cl32="(define-fun clmul32 ((x (_ BitVec 32)) (y (_ BitVec 32))) (_ BitVec 64) (bvxor "+" ".join(f"(ite (= ((_ extract {k} {k}) y) #b1) (bvshl ((_ zero_extend 32) x) (_ bv{k} 64)) (_ bv0 64))" for k in range(32))+"))"
cl64="(define-fun clmul64 ((x (_ BitVec 64)) (y (_ BitVec 64))) (_ BitVec 128) (bvxor "+" ".join(f"(ite (= ((_ extract {k} {k}) y) #b1) (bvshl ((_ zero_extend 64) x) (_ bv{k} 128)) (_ bv0 128))" for k in range(64))+"))"
# lemma A: bilinearity in x: clmul32(x^x2,y) = clmul32(x,y)^clmul32(x2,y) ; and in y
A=["(set-logic QF_BV)",cl32,"(declare-const x (_ BitVec 32))","(declare-const x2 (_ BitVec 32))","(declare-const y (_ BitVec 32))","(declare-const y2 (_ BitVec 32))",
"(assert (not (and (= (clmul32 (bvxor x x2) y) (bvxor (clmul32 x y) (clmul32 x2 y))) (= (clmul32 x (bvxor y y2)) (bvxor (clmul32 x y) (clmul32 x y2))))))","(check-sat)"]
open("lemA.smt2","w").write("\n".join(A))
B=["(set-logic QF_BV)",cl32,cl64,"(declare-const a (_ BitVec 64))","(declare-const b (_ BitVec 64))",
"(define-fun a0 () (_ BitVec 32) ((_ extract 31 0) a))","(define-fun a1 () (_ BitVec 32) ((_ extract 63 32) a))",
"(define-fun b0 () (_ BitVec 32) ((_ extract 31 0) b))","(define-fun b1 () (_ BitVec 32) ((_ extract 63 32) b))",
"(define-fun z ((v (_ BitVec 64))) (_ BitVec 128) ((_ zero_extend 64) v))",
"(assert (not (= (clmul64 a b) (bvxor (z (clmul32 a0 b0)) (bvshl (z (bvxor (clmul32 a0 b1) (clmul32 a1 b0))) (_ bv32 128)) (bvshl (z (clmul32 a1 b1)) (_ bv64 128))))))","(check-sat)"]
open("lemB.smt2","w").write("\n".join(B))
