sel=["#x11111111","#x22222222","#x44444444","#x88888888"]
sel64=["#x1111111111111111","#x2222222222222222","#x4444444444444444","#x8888888888888888"]
s=["(set-logic QF_BV)","(declare-const a (_ BitVec 32))","(declare-const b (_ BitVec 32))"]
s.append("(define-fun clmul ((x (_ BitVec 64)) (y (_ BitVec 64))) (_ BitVec 64) (bvxor "+" ".join(f"(ite (= ((_ extract {k} {k}) y) #b1) (bvshl x (_ bv{k} 64)) (_ bv0 64))" for k in range(32))+"))")
for i in range(4):
    s.append(f"(define-fun a{i} () (_ BitVec 64) ((_ zero_extend 32) (bvand a {sel[i]})))")
    s.append(f"(define-fun b{i} () (_ BitVec 64) ((_ zero_extend 32) (bvand b {sel[i]})))")
pairs={0:[(0,0),(1,3),(2,2),(3,1)],1:[(0,1),(1,0),(2,3),(3,2)],2:[(0,2),(1,1),(2,0),(3,3)],3:[(0,3),(1,2),(2,1),(3,0)]}
# lemma-substituted impl: (XOR products)&mask == XOR (product&mask) == XOR clmul
for k,ps in pairs.items():
    s.append(f"(define-fun c{k} () (_ BitVec 64) (bvxor "+" ".join(f"(clmul a{i} b{j})" for i,j in ps)+"))")
s.append("(define-fun impl () (_ BitVec 64) (bvor c0 c1 c2 c3))")
s.append("(assert (not (= impl (clmul ((_ zero_extend 32) a) ((_ zero_extend 32) b)))))")
s.append("(check-sat)")
open("clmul_lin.smt2","w").write("\n".join(s))
