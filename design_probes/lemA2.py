cl32="(define-fun clmul32 ((x (_ BitVec 32)) (y (_ BitVec 32))) (_ BitVec 64) (bvxor "+" ".join(f"(ite (= ((_ extract {k} {k}) y) #b1) (bvshl ((_ zero_extend 32) x) (_ bv{k} 64)) (_ bv0 64))" for k in range(32))+"))"
hdr=["(set-logic QF_BV)",cl32,"(declare-const x (_ BitVec 32))","(declare-const x2 (_ BitVec 32))","(declare-const y (_ BitVec 32))","(declare-const y2 (_ BitVec 32))"]
open("lemAx.smt2","w").write("\n".join(hdr+["(assert (not (= (clmul32 (bvxor x x2) y) (bvxor (clmul32 x y) (clmul32 x2 y)))))","(check-sat)"]))
open("lemAy.smt2","w").write("\n".join(hdr+["(assert (not (= (clmul32 x (bvxor y y2)) (bvxor (clmul32 x y) (clmul32 x y2)))))","(check-sat)"]))
# alt spec using and-mask instead of ite: (x<<k) & sext(y_k)
cl32b="(define-fun clmul32 ((x (_ BitVec 32)) (y (_ BitVec 32))) (_ BitVec 64) (bvxor "+" ".join(f"(bvand (bvshl ((_ zero_extend 32) x) (_ bv{k} 64)) ((_ repeat 64) ((_ extract {k} {k}) y)))" for k in range(32))+"))"
hdr[1]=cl32b
open("lemAxb.smt2","w").write("\n".join(hdr+["(assert (not (= (clmul32 (bvxor x x2) y) (bvxor (clmul32 x y) (clmul32 x2 y)))))","(check-sat)"]))
open("lemAyb.smt2","w").write("\n".join(hdr+["(assert (not (= (clmul32 x (bvxor y y2)) (bvxor (clmul32 x y) (clmul32 x y2)))))","(check-sat)"]))
