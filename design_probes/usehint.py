q=8380417
def gen(g2):
    s=["(set-logic QF_NIA)","(declare-const a Int)","(declare-const h Int)",f"(assert (and (<= 0 a) (< a {q}) (or (= h 0) (= h 1))))"]
    m=(q-1)//(2*g2)
    # spec decompose (signed r0)
    s.append(f"(define-fun mm () Int (mod a {2*g2}))")
    s.append(f"(define-fun r0s0 () Int (ite (> mm {g2}) (- mm {2*g2}) mm))")
    s.append(f"(define-fun wrap () Bool (= (- a r0s0) {q-1}))")
    s.append(f"(define-fun r1s () Int (ite wrap 0 (div (- a r0s0) {2*g2})))")
    s.append(f"(define-fun r0s () Int (ite wrap (- r0s0 1) r0s0))")
    s.append(f"(define-fun spec () Int (ite (= h 1) (ite (> r0s 0) (mod (+ r1s 1) {m}) (mod (- r1s 1) {m})) r1s))")
    # impl given decompose contract: r1 = r1s, r0 = r0s mod q (unsigned)
    s.append(f"(define-fun r1 () Int r1s)")
    s.append(f"(define-fun r0 () Int (mod r0s {q}))")
    t=q-g2  # rZq(gamma2).neg() = (0 + q - g2) reduceOnce = q-g2
    def red(x): return f"(ite (<= {q} {x}) (- {x} {q}) {x})"
    add1=red("(+ r1 1)")
    sub1=red(f"(- (+ r1 {q}) 1)")
    s.append(f"(define-fun impl () Int (ite (= h 1) (ite (and (> r0 0) (< r0 {t})) (ite (= r1 {m-1}) 0 {add1}) (ite (= r1 0) {m-1} {sub1})) r1))")
    s.append("(assert (not (= impl spec)))")
    s.append("(check-sat)")
    return "\n".join(s)
open("uh88.smt2","w").write(gen((q-1)//88)); open("uh32.smt2","w").write(gen((q-1)//32))
