def sel(i): return ["#x11111111","#x22222222","#x44444444","#x88888888"][i]
def sel64(i): return ["#x1111111111111111","#x2222222222222222","#x4444444444444444","#x8888888888888888"][i]
s=["(set-logic QF_BV)","(declare-const a (_ BitVec 32))","(declare-const b (_ BitVec 32))"]
for i in range(4):
    s.append(f"(define-fun a{i} () (_ BitVec 64) ((_ zero_extend 32) (bvand a {sel(i)})))")
    s.append(f"(define-fun b{i} () (_ BitVec 64) ((_ zero_extend 32) (bvand b {sel(i)})))")
pairs={0:[(0,0),(1,3),(2,2),(3,1)],1:[(0,1),(1,0),(2,3),(3,2)],2:[(0,2),(1,1),(2,0),(3,3)],3:[(0,3),(1,2),(2,1),(3,0)]}
for k,ps in pairs.items():
    t=" ".join(f"(bvmul a{i} b{j})" for i,j in ps)
    s.append(f"(define-fun c{k} () (_ BitVec 64) (bvxor {t}))")
s.append("(define-fun impl () (_ BitVec 64) (bvor "+" ".join(f"(bvand c{k} {sel64(k)})" for k in range(4))+"))")
# spec: xor over i of (b bit i ? a<<i : 0)
terms=[]
for i in range(32):
    terms.append(f"(ite (= ((_ extract {i} {i}) b) #b1) (bvshl ((_ zero_extend 32) a) (_ bv{i} 64)) (_ bv0 64))")
s.append("(define-fun spec () (_ BitVec 64) (bvxor "+" ".join(terms)+"))")
s.append("(assert (not (= impl spec)))")
s.append("(check-sat)")
open("clmul32.smt2","w").write("\n".join(s))
