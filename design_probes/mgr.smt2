(set-logic ALL)
; heap of entry objects: fields as arrays Ref->value
(declare-sort Ref 0)
(declare-const id (Array Ref Int))
(declare-const st (Array Ref Int))       ; 0 unknown 1 enabled 2 disabled 3 destroyed
(declare-const pr0 (Array Ref Bool))     ; isPrimary before
(declare-const ents (Array Int Ref))     ; km.entries contents
(declare-const n Int)
(assert (>= n 0))
; wf: distinct ids, at most one primary and it is enabled
(define-fun inr ((i Int)) Bool (and (<= 0 i) (< i n)))
(assert (forall ((i Int) (j Int)) (! (=> (and (inr i) (inr j) (not (= i j))) (not (= (select id (select ents i)) (select id (select ents j))))) :pattern ((select ents i) (select ents j)))))
(assert (forall ((i Int)) (! (=> (and (inr i) (select pr0 (select ents i))) (= (select st (select ents i)) 1)) :pattern ((select ents i)))))
; SetPrimary(k): findEntry -> index f with id == k (first), status enabled
(declare-const k Int) (declare-const f Int)
(assert (and (inr f) (= (select id (select ents f)) k) (= (select st (select ents f)) 1)))
; entry.isPrimary = true
(define-fun pr1 () (Array Ref Bool) (store pr0 (select ents f) true))
; loop result (from invariant at exit i==n): forall j<n: if id(ents j)==id(entry) then pr2 = pr1 else false ; frame: refs not in ents unchanged
(declare-const pr2 (Array Ref Bool))
(assert (forall ((j Int)) (! (=> (inr j) (= (select pr2 (select ents j)) (ite (= (select id (select ents j)) k) (select pr1 (select ents j)) false))) :pattern ((select ents j)))))
; goal: exactly one primary, enabled
(assert (not (and
  (select pr2 (select ents f))
  (forall ((j Int)) (=> (and (inr j) (select pr2 (select ents j))) (and (= j f) (= (select st (select ents j)) 1)))))))
(check-sat)
