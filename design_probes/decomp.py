# generate SMT (Int encoding) for decompose vs FIPS204 Decompose for both gamma2 values
import sys
q=8380417
def gen(g2, fast):
    # fast: 0 → gamma2=(q-1)/88, 1 → (q-1)/32
    s=[]
    s.append("(set-logic QF_NIA)")
    s.append("(declare-const a Int)")
    s.append(f"(assert (and (<= 0 a) (< a {q})))")
    W32="(mod %s 4294967296)"
    def div2g(x):
        if g2==(q-1)//88:
            return f"(mod (div (mod (* {x} 2955676419) 18446744073709551616) {2**49}) 4294967296)"
        else:
            return f"(mod (div (mod (* (div {x} 512) 8396809) 18446744073709551616) {2**33}) 4294967296)"
    def red(x): # reduceOnce on uint32 x
        return f"(ite (<= {q} {x}) (- {x} {q}) {x})"
    def sub(x,y): return red(W32%f"(- (+ {x} {q}) {y})")
    s.append(f"(define-fun s () Int {div2g(W32%f'(- (+ a {g2}) 1)')})")
    s.append(f"(define-fun r0a () Int {sub('a', W32%f'(* s {2*g2})')})")
    s.append(f"(define-fun t () Int {sub('a','r0a')})")
    s.append(f"(define-fun r1r () Int {div2g('t')})")
    s.append(f"(define-fun c () Bool (= t {q-1}))")
    s.append(f"(define-fun r1 () Int (ite c 0 r1r))")
    s.append(f"(define-fun r0 () Int (ite c {sub('r0a','1')} r0a))")
    # spec: r+ = a mod q ; r0s = r+ mod± 2g2 ; if r+ - r0s = q-1 then r1=0, r0s=r0s-1 else r1=(r+-r0s)/(2g2)
    s.append(f"(define-fun m () Int (mod a {2*g2}))")
    s.append(f"(define-fun r0s () Int (ite (> m {g2}) (- m {2*g2}) m))")
    s.append(f"(define-fun wrap () Bool (= (- a r0s) {q-1}))")
    s.append(f"(define-fun r1spec () Int (ite wrap 0 (div (- a r0s) {2*g2})))")
    s.append(f"(define-fun r0spec () Int (ite wrap (- r0s 1) r0s))")
    # unsigned rep of r0spec mod q
    s.append(f"(define-fun r0u () Int (mod r0spec {q}))")
    s.append("(assert (not (and (= r1 r1spec) (= r0 r0u))))")
    s.append("(check-sat)(get-model)")
    return "\n".join(s)
open("dec88.smt2","w").write(gen((q-1)//88,0))
open("dec32.smt2","w").write(gen((q-1)//32,1))
