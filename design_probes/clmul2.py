import sys
i=int(sys.argv[1]); j=int(sys.argv[2])
sel=["#x11111111","#x22222222","#x44444444","#x88888888"]
sel64=["#x1111111111111111","#x2222222222222222","#x4444444444444444","#x8888888888888888"]
s=["(set-logic QF_BV)","(declare-const a (_ BitVec 32))","(declare-const b (_ BitVec 32))"]
s.append(f"(define-fun x () (_ BitVec 64) ((_ zero_extend 32) (bvand a {sel[i]})))")
s.append(f"(define-fun y () (_ BitVec 64) ((_ zero_extend 32) (bvand b {sel[j]})))")
terms=[]
for k in range(32):
    terms.append(f"(ite (= ((_ extract {k} {k}) y) #b1) (bvshl x (_ bv{k} 64)) (_ bv0 64))")
s.append("(define-fun spec () (_ BitVec 64) (bvxor "+" ".join(terms)+"))")
s.append(f"(assert (not (= (bvand (bvmul x y) {sel64[(i+j)%4]}) spec)))")
s.append("(check-sat)")
open(f"clmul_{i}{j}.smt2","w").write("\n".join(s))
