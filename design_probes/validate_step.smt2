(set-logic ALL)
; keys: arrays over index
(declare-fun kid (Int) Int) (declare-fun st (Int) Int) (declare-const prim Int) (declare-const n Int)
(define-fun EN ((j Int)) Bool (= (st j) 1))
; loop state at head i
(declare-const i Int) (declare-const ids (Array Int Bool)) (declare-const hasP Bool) (declare-const ne Int)
(assert (and (<= 0 i) (< i n)))
; invariant
(assert (forall ((j Int)) (! (=> (and (<= 0 j) (< j i)) (select ids (kid j))) :pattern ((kid j)))))
(assert (forall ((x Int)) (! (=> (select ids x) (exists ((j Int)) (and (<= 0 j) (< j i) (= (kid j) x)))) :pattern ((select ids x)))))
(assert (forall ((j Int) (k Int)) (! (=> (and (<= 0 j) (< j k) (< k i)) (not (= (kid j) (kid k)))) :pattern ((kid j) (kid k)))))
(assert (forall ((j Int)) (! (=> (and (<= 0 j) (< j i) (not (EN j))) (not (= (kid j) prim))) :pattern ((st j)))))
(assert (= hasP (exists ((j Int)) (and (<= 0 j) (< j i) (EN j) (= (kid j) prim)))))
(assert (and (>= ne 0) (= (> ne 0) (exists ((j Int)) (and (<= 0 j) (< j i) (EN j))))))
; body on the non-error path for key i
(assert (not (select ids (kid i))))                         ; no duplicate
(assert (not (and (not (EN i)) (= (kid i) prim))))          ; not a non-enabled primary
(define-fun ids2 () (Array Int Bool) (store ids (kid i) true))
(assert (=> (and (EN i) (= (kid i) prim)) (not hasP)))      ; else error "multiple primary"
(define-fun hasP2 () Bool (ite (and (EN i) (= (kid i) prim)) true hasP))
(define-fun ne2 () Int (ite (EN i) (+ ne 1) ne))
(define-fun i2 () Int (+ i 1))
; goal: invariant at i2
(assert (not (and
  (forall ((j Int)) (=> (and (<= 0 j) (< j i2)) (select ids2 (kid j))))
  (forall ((x Int)) (=> (select ids2 x) (exists ((j Int)) (and (<= 0 j) (< j i2) (= (kid j) x)))))
  (forall ((j Int) (k Int)) (=> (and (<= 0 j) (< j k) (< k i2)) (not (= (kid j) (kid k)))))
  (forall ((j Int)) (=> (and (<= 0 j) (< j i2) (not (EN j))) (not (= (kid j) prim))))
  (= hasP2 (exists ((j Int)) (and (<= 0 j) (< j i2) (EN j) (= (kid j) prim))))
  (and (>= ne2 0) (= (> ne2 0) (exists ((j Int)) (and (<= 0 j) (< j i2) (EN j))))))))
(check-sat)
