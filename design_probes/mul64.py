s=["(set-logic QF_BV)","(declare-const a (_ BitVec 64))","(declare-const b (_ BitVec 64))"]
s.append("(define-fun clmul32 ((x (_ BitVec 32)) (y (_ BitVec 32))) (_ BitVec 64) (bvxor "+" ".join(f"(ite (= ((_ extract {k} {k}) y) #b1) (bvshl ((_ zero_extend 32) x) (_ bv{k} 64)) (_ bv0 64))" for k in range(32))+"))")
s.append("(define-fun clmul64 ((x (_ BitVec 64)) (y (_ BitVec 64))) (_ BitVec 128) (bvxor "+" ".join(f"(ite (= ((_ extract {k} {k}) y) #b1) (bvshl ((_ zero_extend 64) x) (_ bv{k} 128)) (_ bv0 128))" for k in range(64))+"))")
s+=["(define-fun a0 () (_ BitVec 32) ((_ extract 31 0) a))","(define-fun a1 () (_ BitVec 32) ((_ extract 63 32) a))",
"(define-fun b0 () (_ BitVec 32) ((_ extract 31 0) b))","(define-fun b1 () (_ BitVec 32) ((_ extract 63 32) b))",
"(define-fun lo () (_ BitVec 64) (clmul32 a0 b0))","(define-fun hi () (_ BitVec 64) (clmul32 a1 b1))",
"(define-fun mid () (_ BitVec 64) (bvxor (clmul32 (bvxor a0 a1) (bvxor b0 b1)) lo hi))",
"(define-fun rlo () (_ BitVec 64) (bvxor lo (bvshl mid (_ bv32 64))))",
"(define-fun rhi () (_ BitVec 64) (bvxor hi (bvlshr mid (_ bv32 64))))",
"(assert (not (= (concat rhi rlo) (clmul64 a b))))","(check-sat)"]
open("mul64.smt2","w").write("\n".join(s))
