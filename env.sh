# sourced by ./check and by hand: offline Go toolchain for /repo (needs go 1.25)
export GOFLAGS=-mod=mod GOPROXY=off GOTOOLCHAIN=local GONOSUMDB=* GONOSUMCHECK=1 GOFLAGS=-mod=mod
export PATH=/root/go/pkg/mod/golang.org/toolchain@v0.0.1-go1.25.11.linux-amd64/bin:$PATH
