package main

// Translation of Go expressions (real code) to terms.

import (
	"go/ast"
	"go/constant"
	"go/token"
	"go/types"
	"math/big"
	"strings"
)

func (v *Verifier) typeOf(e ast.Expr) types.Type {
	t := v.info.TypeOf(e)
	if t == nil {
		unsupported("no type for expression at %s", v.pos(e.Pos()))
	}
	return t
}

func (v *Verifier) constTerm(val constant.Value, t types.Type) *Term {
	switch val.Kind() {
	case constant.Bool:
		return BoolLit(constant.BoolVal(val))
	case constant.Int:
		n, ok := new(big.Int).SetString(val.ExactString(), 10)
		if !ok {
			unsupported("constant %s", val)
		}
		if isFloat(t) {
			unsupported("float constant")
		}
		return v.intLit(n, t)
	case constant.String:
		return v.strLit(constant.StringVal(val))
	case constant.Float:
		if _, _, ok := intInfo(t); ok {
			if i := constant.ToInt(val); i.Kind() == constant.Int {
				n, _ := new(big.Int).SetString(i.ExactString(), 10)
				return v.intLit(n, t)
			}
		}
	}
	unsupported("constant kind %v", val.Kind())
	return nil
}

// eval evaluates a single-valued expression.
func (v *Verifier) eval(s *State, e ast.Expr) *Term {
	if tv, ok := v.info.Types[e]; ok && tv.Value != nil {
		return v.constTerm(tv.Value, tv.Type)
	}
	switch x := e.(type) {
	case *ast.ParenExpr:
		return v.eval(s, x.X)
	case *ast.Ident:
		return v.evalIdent(s, x)
	case *ast.BasicLit:
		unsupported("literal %s", x.Value)
	case *ast.UnaryExpr:
		return v.evalUnary(s, x)
	case *ast.BinaryExpr:
		return v.evalBinary(s, x)
	case *ast.CallExpr:
		rs := v.evalCall(s, x)
		if len(rs) != 1 {
			unsupported("call with %d results used as value at %s", len(rs), v.pos(x.Pos()))
		}
		return rs[0]
	case *ast.SelectorExpr:
		return v.evalSelector(s, x)
	case *ast.IndexExpr:
		return v.evalIndex(s, x)
	case *ast.SliceExpr:
		return v.evalSliceExpr(s, x)
	case *ast.StarExpr:
		p := v.eval(s, x.X)
		pt := v.typeOf(x.X).Underlying().(*types.Pointer)
		v.nonNil(s, p, pt, x.Pos())
		return v.loadPtr(s, p, pt.Elem())
	case *ast.CompositeLit:
		return v.evalCompositeLit(s, x)
	case *ast.TypeAssertExpr:
		rs := v.evalTypeAssert(s, x, false)
		return rs[0]
	case *ast.FuncLit:
		return v.evalFuncLit(s, x)
	}
	unsupported("expression %T at %s", e, v.pos(e.Pos()))
	return nil
}

func (v *Verifier) nonNil(s *State, p *Term, pt types.Type, pos token.Pos) {
	if u, ok := pt.Underlying().(*types.Pointer); ok {
		if _, isArr := u.Elem().Underlying().(*types.Array); isArr {
			v.oblige(s, "nopanic", "nil-deref", Neq(p, IntLit(0)), pos, "nil pointer dereference")
			s.assume(Neq(p, IntLit(0)))
			return
		}
	}
	v.oblige(s, "nopanic", "nil-deref", Neq(p, IntLit(0)), pos, "nil pointer dereference")
	s.assume(Neq(p, IntLit(0)))
}

func (v *Verifier) evalIdent(s *State, x *ast.Ident) *Term {
	obj := v.info.ObjectOf(x)
	switch o := obj.(type) {
	case *types.Nil:
		return v.zeroOf(v.typeOf(x))
	case *types.Const:
		return v.constTerm(o.Val(), o.Type())
	case *types.Var:
		if v.boxed[o] {
			ref, ok := s.vars[o]
			if !ok {
				unsupported("boxed variable %s used before declaration", o.Name())
			}
			return v.loadPtr(s, ref, o.Type())
		}
		if t, ok := s.vars[o]; ok {
			return t
		}
		if o.Parent() == o.Pkg().Scope() || o.Pkg() != v.pkg.Types { // package-level variable
			return v.loadGlobal(s, o)
		}
		unsupported("variable %s has no value at %s", o.Name(), v.pos(x.Pos()))
	case *types.Func:
		// function value
		id := v.d.typeID("func:" + o.FullName())
		return IntLit(int64(-1000 - id))
	}
	unsupported("identifier %s (%T)", x.Name, obj)
	return nil
}

func (v *Verifier) globalName(o *types.Var) string {
	return v.heapName("G", o.Pkg().Name(), o.Name())
}

func (v *Verifier) loadGlobal(s *State, o *types.Var) *Term {
	name := v.globalName(o)
	_, known := s.heaps[name]
	h := v.getHeap(s, name, v.sortOf(o.Type()))
	if !known {
		// immutable tables: value known from the initialiser
		if init := v.eng.globalInit(o); init != nil && s.epoch == 0 {
			if val := v.evalTable(o, init); val != nil {
				s.assume(Eq(h, val))
			} else {
				v.evalMapTable(s, o, init, h)
			}
			// slice variable initialised by a composite literal and never assigned or
			// address-taken in its package (checked on the syntax; unexported only): its
			// length is the literal's
			if cl, ok := init.(*ast.CompositeLit); ok && !o.Exported() {
				if _, isSl := o.Type().Underlying().(*types.Slice); isSl && v.globalNeverAssigned(o) {
					keyed := false
					for _, el := range cl.Elts {
						if _, ok := el.(*ast.KeyValueExpr); ok {
							keyed = true
						}
					}
					if !keyed {
						s.assume(Eq(SLen(h), IntLit(int64(len(cl.Elts)))))
					}
				}
			}
			// sentinel errors: var errX = errors.New(...) / fmt.Errorf(...)
			if call, ok := init.(*ast.CallExpr); ok && h.Sort == SIface {
				if sel, ok := call.Fun.(*ast.SelectorExpr); ok {
					if id, ok := sel.X.(*ast.Ident); ok && ((id.Name == "errors" && sel.Sel.Name == "New") || (id.Name == "fmt" && sel.Sel.Name == "Errorf")) {
						s.assume(Neq(IType(h), IntLit(0)))
						v.assumed["package-level sentinel error "+o.Pkg().Name()+"."+o.Name()+" keeps its initial non-nil value"] = true
					}
				}
			}
		}
		s.assume(v.typeFacts(s, h, o.Type()))
	}
	return h
}

// globalNeverAssigned: no assignment, inc/dec, range assignment or address-of names the
// package-level variable anywhere in its package's (non-test) syntax.
func (v *Verifier) globalNeverAssigned(o *types.Var) bool {
	p := v.eng.globPkg[o]
	if p == nil || p.TypesInfo == nil {
		return false
	}
	isO := func(e ast.Expr) bool {
		for {
			switch x := e.(type) {
			case *ast.ParenExpr:
				e = x.X
				continue
			case *ast.Ident:
				return p.TypesInfo.Uses[x] == o
			}
			return false
		}
	}
	ok := true
	for _, f := range p.Syntax {
		ast.Inspect(f, func(n ast.Node) bool {
			switch x := n.(type) {
			case *ast.AssignStmt:
				for _, l := range x.Lhs {
					if isO(l) {
						ok = false
					}
				}
			case *ast.IncDecStmt:
				if isO(x.X) {
					ok = false
				}
			case *ast.RangeStmt:
				if (x.Key != nil && isO(x.Key)) || (x.Value != nil && isO(x.Value)) {
					ok = false
				}
			case *ast.UnaryExpr:
				if x.Op == token.AND && isO(x.X) {
					ok = false
				}
			}
			return ok
		})
	}
	return ok
}

func (v *Verifier) evalUnary(s *State, x *ast.UnaryExpr) *Term {
	switch x.Op {
	case token.NOT:
		return Not(v.eval(s, x.X))
	case token.SUB:
		t := v.typeOf(x)
		a := v.eval(s, x.X)
		return v.arith(s, token.SUB, v.intConst(0, t), a, t, x.Pos())
	case token.ADD:
		return v.eval(s, x.X)
	case token.XOR:
		t := v.typeOf(x)
		a := v.eval(s, x.X)
		w, signed, _ := intInfo(t)
		if v.mode == "bv" {
			return bvNot(a)
		}
		if signed {
			return Sub(IntLit(-1), a)
		}
		return Sub(IntLitB(new(big.Int).Sub(Pow2(w), big.NewInt(1))), a)
	case token.AND:
		return v.addrOf(s, x.X)
	}
	unsupported("unary %s", x.Op)
	return nil
}

// addrOf implements &x.
func (v *Verifier) addrOf(s *State, e ast.Expr) *Term {
	switch x := e.(type) {
	case *ast.ParenExpr:
		return v.addrOf(s, x.X)
	case *ast.CompositeLit:
		t := v.typeOf(x)
		val := v.evalCompositeLit(s, x)
		ref := v.allocRef(s)
		v.storePtr(s, ref, t, val)
		return ref
	case *ast.Ident:
		obj, _ := v.info.ObjectOf(x).(*types.Var)
		if obj != nil && v.boxed[obj] {
			return s.vars[obj]
		}
		if obj != nil && (obj.Parent() == obj.Pkg().Scope()) {
			unsupported("address of package variable %s", x.Name)
		}
		unsupported("address of unboxed variable %s", x.Name)
	case *ast.SelectorExpr:
		// &p.f where f is a struct-typed or array-typed field of a heap struct
		sel := v.info.Selections[x]
		if sel != nil && sel.Kind() == types.FieldVal {
			ref, st, idx, ok := v.fieldRef(s, x)
			if ok {
				ft := st.Underlying().(*types.Struct).Field(idx).Type()
				if _, isArr := ft.Underlying().(*types.Array); isArr {
					return fieldBase(ref, idx)
				}
			}
		}
		if sel != nil && sel.Kind() == types.FieldVal {
			if _, isStruct := v.typeOf(x).Underlying().(*types.Struct); isStruct {
				val := v.eval(s, x)
				ref := v.allocRef(s)
				v.storePtr(s, ref, v.typeOf(x), val)
				s.snaps = append(s.snaps, &snapshot{ref: ref, t: v.typeOf(x), val: val, expr: x, pos: x.Pos()})
				return ref
			}
		}
		unsupported("address of field %s", x.Sel.Name)
	case *ast.IndexExpr:
		unsupported("address of element")
	}
	unsupported("address-of %T", e)
	return nil
}

// fieldRef resolves x.f to (object ref, struct type, field index) when the
// struct lives in the heap (x is a pointer, possibly via embedded pointers).
func (v *Verifier) fieldRef(s *State, x *ast.SelectorExpr) (ref *Term, st types.Type, idx int, ok bool) {
	sel := v.info.Selections[x]
	if sel == nil || sel.Kind() != types.FieldVal {
		return nil, nil, 0, false
	}
	recvT := sel.Recv()
	path := sel.Index()
	// base value
	var cur *Term
	curT := recvT
	inHeap := false
	if pt, isPtr := recvT.Underlying().(*types.Pointer); isPtr {
		cur = v.eval(s, x.X)
		v.nonNil(s, cur, recvT, x.Pos())
		curT = pt.Elem()
		inHeap = true
	} else if id, isId := ast.Unparen(x.X).(*ast.Ident); isId {
		if o, _ := v.info.ObjectOf(id).(*types.Var); o != nil && v.boxed[o] {
			cur = s.vars[o]
			inHeap = true
		}
	}
	if !inHeap {
		return nil, nil, 0, false
	}
	for k, fi := range path {
		stt := curT.Underlying().(*types.Struct)
		if k == len(path)-1 {
			return cur, curT, fi, true
		}
		ft := stt.Field(fi).Type()
		if pt, isPtr := ft.Underlying().(*types.Pointer); isPtr {
			cur = v.loadField(s, cur, curT, fi)
			v.nonNil(s, cur, ft, x.Pos())
			curT = pt.Elem()
		} else {
			// embedded struct by value inside a heap struct: not addressable in our model
			return nil, nil, 0, false
		}
	}
	return nil, nil, 0, false
}

func (v *Verifier) evalSelector(s *State, x *ast.SelectorExpr) *Term {
	// qualified identifier pkg.Name
	if id, ok := x.X.(*ast.Ident); ok {
		if _, isPkg := v.info.ObjectOf(id).(*types.PkgName); isPkg {
			switch o := v.info.ObjectOf(x.Sel).(type) {
			case *types.Const:
				return v.constTerm(o.Val(), o.Type())
			case *types.Var:
				return v.loadGlobal(s, o)
			case *types.Func:
				id := v.d.typeID("func:" + o.FullName())
				return IntLit(int64(-1000 - id))
			}
			unsupported("qualified identifier %s.%s", id.Name, x.Sel.Name)
		}
	}
	sel := v.info.Selections[x]
	if sel == nil {
		unsupported("selector %s", x.Sel.Name)
	}
	switch sel.Kind() {
	case types.FieldVal:
		if ref, st, idx, ok := v.fieldRef(s, x); ok {
			return v.loadField(s, ref, st, idx)
		}
		// struct value
		cur := v.eval(s, x.X)
		curT := sel.Recv()
		for _, fi := range sel.Index() {
			if pt, isPtr := curT.Underlying().(*types.Pointer); isPtr {
				v.nonNil(s, cur, curT, x.Pos())
				cur = v.loadField(s, cur, pt.Elem(), fi)
				curT = pt.Elem().Underlying().(*types.Struct).Field(fi).Type()
				continue
			}
			si := v.structInfoOf(curT)
			cur = acc(si.fields[fi], fi, si.fsorts[fi], cur)
			curT = curT.Underlying().(*types.Struct).Field(fi).Type()
		}
		return cur
	case types.MethodVal:
		// method value x.M (not called) on a receiver of basic type: an opaque non-nil
		// function value determined by the method and the receiver value
		if mfn, ok := sel.Obj().(*types.Func); ok {
			if _, isBasic := sel.Recv().Underlying().(*types.Basic); isBasic && len(sel.Index()) == 1 {
				return v.methodValue(s, mfn.FullName(), v.eval(s, x.X))
			}
			// ... or of an interface value (the method value of a nil interface panics)
			if _, isIface := sel.Recv().Underlying().(*types.Interface); isIface && len(sel.Index()) == 1 {
				recv := v.eval(s, x.X)
				v.oblige(s, "nopanic", "nil-iface", Neq(IType(recv), IntLit(0)), x.Pos(), "method value of nil interface value")
				s.assume(Neq(IType(recv), IntLit(0)))
				return v.methodValue(s, mfn.FullName(), recv)
			}
		}
		unsupported("method value %s", x.Sel.Name)
	}
	unsupported("selector kind")
	return nil
}

// methodValue: the function value recv.M for a method M (full name) of a basic-typed
// receiver: methval.<M>(recv), never nil and distinct from allocated closures.
func (v *Verifier) methodValue(s *State, full string, recv *Term) *Term {
	fn := "methval." + smtIdent(full)
	v.d.declareFun(fn, []string{recv.Sort}, SInt)
	r := mk(fn, SInt, recv)
	s.assume(Lt(r, IntLit(-1000)))
	return r
}

// idxInt converts an index term of Go type t to an Int term.
func (v *Verifier) idxInt(i *Term, t types.Type) *Term {
	if v.mode != "bv" {
		return i
	}
	w, signed, ok := intInfo(t)
	if !ok {
		unsupported("index type %s", t)
	}
	if i.isBV() {
		if signed {
			return IntLitB(toSigned(i.Int, w))
		}
		return IntLitB(i.Int)
	}
	if signed {
		return Ite(bvCmp("bvslt", i, BVLit(0, w)), Sub(bv2nat(i), IntLitB(Pow2(w))), bv2nat(i))
	}
	return bv2nat(i)
}

// intFromInt converts an Int term (a length) to a Go int value in the current mode.
func (v *Verifier) goInt(i *Term) *Term {
	if v.mode == "bv" {
		return int2bv(64, i)
	}
	return i
}

func (v *Verifier) evalIndex(s *State, x *ast.IndexExpr) *Term {
	xt := v.typeOf(x.X)
	// generic instantiation f[T]
	if _, isSig := xt.Underlying().(*types.Signature); isSig {
		return v.eval(s, x.X)
	}
	switch u := xt.Underlying().(type) {
	case *types.Slice:
		sl := v.eval(s, x.X)
		i := v.idxInt(v.eval(s, x.Index), v.typeOf(x.Index))
		v.oblige(s, "nopanic", "index", And(Le(IntLit(0), i), Lt(i, SLen(sl))), x.Pos(), "slice index in range")
		s.assume(And(Le(IntLit(0), i), Lt(i, SLen(sl))))
		return v.readElem(s, sl, i, u.Elem())
	case *types.Array:
		arr := v.eval(s, x.X)
		i := v.idxInt(v.eval(s, x.Index), v.typeOf(x.Index))
		v.oblige(s, "nopanic", "index", And(Le(IntLit(0), i), Lt(i, IntLit(u.Len()))), x.Pos(), "array index in range")
		s.assume(And(Le(IntLit(0), i), Lt(i, IntLit(u.Len()))))
		val := Select(arr, i)
		v.noteRead(s, val, u.Elem())
		return val
	case *types.Pointer:
		at, ok := u.Elem().Underlying().(*types.Array)
		if !ok {
			unsupported("index of pointer to %s", u.Elem())
		}
		p := v.eval(s, x.X)
		v.nonNil(s, p, xt, x.Pos())
		i := v.idxInt(v.eval(s, x.Index), v.typeOf(x.Index))
		v.oblige(s, "nopanic", "index", And(Le(IntLit(0), i), Lt(i, IntLit(at.Len()))), x.Pos(), "array index in range")
		s.assume(And(Le(IntLit(0), i), Lt(i, IntLit(at.Len()))))
		_, h, _ := v.sliceHeap(s, at.Elem())
		val := Select(v.hsel(s, h, p), i)
		v.noteRead(s, val, at.Elem())
		return val
	case *types.Map:
		m := v.eval(s, x.X)
		k := v.eval(s, x.Index)
		has, val := v.mapLookup(s, m, k, u)
		return Ite(has, val, v.zeroOf(u.Elem()))
	case *types.Basic:
		if u.Info()&types.IsString != 0 {
			str := v.eval(s, x.X)
			i := v.idxInt(v.eval(s, x.Index), v.typeOf(x.Index))
			v.oblige(s, "nopanic", "index", And(Le(IntLit(0), i), Lt(i, v.strLen(str))), x.Pos(), "string index in range")
			return v.strAt(s, str, i)
		}
	}
	unsupported("index on %s", xt)
	return nil
}

func (v *Verifier) strLen(str *Term) *Term {
	if len(str.Args) == 0 && !str.IsLit && v.mode != "bv" {
		if lit, ok := v.d.strByName[str.Op]; ok {
			return IntLit(int64(len(lit)))
		}
	}
	v.d.declareFun("gstr.len", []string{SStr}, SInt)
	return mk("gstr.len", SInt, str)
}

func (v *Verifier) byteSort() string { return v.intSort(8) }

func (v *Verifier) strAt(s *State, str, i *Term) *Term {
	v.d.declareFun("gstr.bytes", []string{SStr}, SArr(SInt, v.byteSort()))
	val := Select(mk("gstr.bytes", SArr(SInt, v.byteSort()), str), i)
	if v.mode != "bv" && v.inQuant == 0 {
		s.assume(And(Le(IntLit(0), val), Le(val, IntLit(255))))
	}
	return val
}

func (v *Verifier) evalSliceExpr(s *State, x *ast.SliceExpr) *Term {
	xt := v.typeOf(x.X)
	var lo, hi, mx *Term
	if x.Low != nil {
		lo = v.idxInt(v.eval(s, x.Low), v.typeOf(x.Low))
	} else {
		lo = IntLit(0)
	}
	if x.High != nil {
		hi = v.idxInt(v.eval(s, x.High), v.typeOf(x.High))
	}
	if x.Max != nil {
		mx = v.idxInt(v.eval(s, x.Max), v.typeOf(x.Max))
	}
	var base, off, ln, cp *Term
	switch u := xt.Underlying().(type) {
	case *types.Slice:
		sl := v.eval(s, x.X)
		base, off, ln, cp = SBase(sl), SOff(sl), SLen(sl), SCap(sl)
	case *types.Array:
		// slicing an addressable array: must be boxed or a heap field
		b := v.arrayBase(s, x.X)
		base, off, ln, cp = b, IntLit(0), IntLit(u.Len()), IntLit(u.Len())
	case *types.Pointer:
		at, ok := u.Elem().Underlying().(*types.Array)
		if !ok {
			unsupported("slice of pointer to %s", u.Elem())
		}
		p := v.eval(s, x.X)
		v.nonNil(s, p, xt, x.Pos())
		base, off, ln, cp = p, IntLit(0), IntLit(at.Len()), IntLit(at.Len())
	case *types.Basic:
		if u.Info()&types.IsString != 0 {
			str := v.eval(s, x.X)
			if hi == nil {
				hi = v.strLen(str)
			}
			v.oblige(s, "nopanic", "slice", And(Le(IntLit(0), lo), Le(lo, hi), Le(hi, v.strLen(str))), x.Pos(), "string slice bounds")
			v.d.declareFun("gstr.sub", []string{SStr, SInt, SInt}, SStr)
			r := mk("gstr.sub", SStr, str, lo, hi)
			s.assume(Eq(v.strLen(r), Sub(hi, lo)))
			return r
		}
		unsupported("slice of %s", xt)
	default:
		unsupported("slice of %s", xt)
	}
	if hi == nil {
		hi = ln
	}
	if mx == nil {
		mx = cp
	} else {
		v.oblige(s, "nopanic", "slice", Le(mx, cp), x.Pos(), "slice max within capacity")
	}
	goal := And(Le(IntLit(0), lo), Le(lo, hi), Le(hi, mx))
	v.oblige(s, "nopanic", "slice", goal, x.Pos(), "slice bounds in range")
	s.assume(goal)
	return MkSlice(base, Add(off, lo), Sub(hi, lo), Sub(mx, lo))
}

// arrayBase returns the heap base of an addressable array expression.
func (v *Verifier) arrayBase(s *State, e ast.Expr) *Term {
	switch x := ast.Unparen(e).(type) {
	case *ast.Ident:
		if o, _ := v.info.ObjectOf(x).(*types.Var); o != nil && v.boxed[o] {
			return s.vars[o]
		}
		if o, _ := v.info.ObjectOf(x).(*types.Var); o != nil && o.Pkg() != nil && o.Parent() == o.Pkg().Scope() {
			return v.globalArrayBase(s, o)
		}
		unsupported("slicing unboxed array %s", x.Name)
	case *ast.SelectorExpr:
		if ref, _, idx, ok := v.fieldRef(s, x); ok {
			return fieldBase(ref, idx)
		}
		unsupported("slicing array field of a struct value at %s", v.pos(e.Pos()))
	case *ast.StarExpr:
		return v.eval(s, x.X)
	}
	unsupported("slicing array expression %T", e)
	return nil
}

// ---------------- binary operators ----------------

func (v *Verifier) evalBinary(s *State, x *ast.BinaryExpr) *Term {
	switch x.Op {
	case token.LAND:
		a := v.eval(s, x.X)
		// evaluate rhs under guard a
		n := len(s.pc)
		s.pc = append(s.pc, a)
		b := v.eval(s, x.Y)
		s.pc = v.unguard(s.pc, n, a)
		return And(a, b)
	case token.LOR:
		a := v.eval(s, x.X)
		n := len(s.pc)
		s.pc = append(s.pc, Not(a))
		b := v.eval(s, x.Y)
		s.pc = v.unguard(s.pc, n, Not(a))
		return Or(a, b)
	}
	lt, rt := v.typeOf(x.X), v.typeOf(x.Y)
	a := v.eval(s, x.X)
	b := v.eval(s, x.Y)
	switch x.Op {
	case token.EQL, token.NEQ:
		r := v.equal(s, a, b, lt, rt, x.Pos())
		if x.Op == token.NEQ {
			return Not(r)
		}
		return r
	case token.LSS, token.LEQ, token.GTR, token.GEQ:
		if isString(lt) {
			unsupported("string ordering")
		}
		return v.compare(x.Op, a, b, lt)
	case token.SHL, token.SHR:
		return v.shift(s, x.Op, a, b, v.typeOf(x), rt, x.Pos())
	case token.ADD:
		if isString(lt) {
			v.d.declareFun("gstr.cat", []string{SStr, SStr}, SStr)
			r := mk("gstr.cat", SStr, a, b)
			s.assume(Eq(v.strLen(r), Add(v.strLen(a), v.strLen(b))))
			return r
		}
	}
	return v.arith(s, x.Op, a, b, v.typeOf(x), x.Pos())
}

// unguard turns assumptions added while evaluating under a guard into implications.
func (v *Verifier) unguard(pc []*Term, n int, g *Term) []*Term {
	out := pc[:n]
	for _, t := range pc[n+1:] {
		out = append(out, Implies(g, t))
	}
	return out
}

func (v *Verifier) equal(s *State, a, b *Term, lt, rt types.Type, pos token.Pos) *Term {
	// interface vs concrete comparisons
	_, li := lt.Underlying().(*types.Interface)
	_, ri := rt.Underlying().(*types.Interface)
	if li && !ri {
		if b.Sort != SIface {
			b = v.toIface(s, b, rt)
		}
	} else if ri && !li {
		if a.Sort != SIface {
			a = v.toIface(s, a, lt)
		}
	}
	if a.Sort != b.Sort {
		unsupported("comparison of %s and %s at %s", lt, rt, v.pos(pos))
	}
	if _, isSl := lt.Underlying().(*types.Slice); isSl {
		// only comparison with nil is legal
		if sameTerm(b, NilSlice) {
			return Eq(SBase(a), IntLit(0))
		}
		if sameTerm(a, NilSlice) {
			return Eq(SBase(b), IntLit(0))
		}
	}
	return Eq(a, b)
}

func (v *Verifier) compare(op token.Token, a, b *Term, t types.Type) *Term {
	if v.mode == "bv" {
		_, signed, _ := intInfo(t)
		var name string
		switch op {
		case token.LSS:
			name = "lt"
		case token.LEQ:
			name = "le"
		case token.GTR:
			name = "gt"
		case token.GEQ:
			name = "ge"
		}
		p := "bvu"
		if signed {
			p = "bvs"
		}
		return bvCmp(p+name, a, b)
	}
	switch op {
	case token.LSS:
		return Lt(a, b)
	case token.LEQ:
		return Le(a, b)
	case token.GTR:
		return Gt(a, b)
	case token.GEQ:
		return Ge(a, b)
	}
	return nil
}

func (v *Verifier) shift(s *State, op token.Token, a, b *Term, t, bt types.Type, pos token.Pos) *Term {
	w, signed, ok := intInfo(t)
	if !ok {
		unsupported("shift of %s", t)
	}
	bw, bsigned, _ := intInfo(bt)
	if v.mode == "bv" {
		// bring count to operand width
		var cnt *Term
		switch {
		case bw == 0: // untyped const handled by constTerm with default int
			cnt = b
		case bw == w:
			cnt = b
		case bw < w:
			cnt = bvZeroExt(w-bw, b)
		default:
			if b.isBV() {
				if b.Int.Cmp(big.NewInt(int64(w))) >= 0 {
					cnt = BVLit(int64(w), w)
					if w < 8 {
						unsupported("narrow shift")
					}
				} else {
					cnt = BVLitB(b.Int, w)
				}
			} else {
				big := bvCmp("bvuge", b, BVLit(int64(w), bw))
				cnt = Ite(big, BVLit(int64(w), w), bvExtract(w-1, 0, b))
			}
		}
		_ = bsigned
		if op == token.SHL {
			return bvBin("bvshl", a, cnt)
		}
		if signed {
			return bvBin("bvashr", a, cnt)
		}
		return bvBin("bvlshr", a, cnt)
	}
	// int mode: constant counts only
	b = s.normInt(b)
	if !b.isInt() {
		// variable shift: 2^b as uninterpreted pow2 with defining facts for small ranges
		v.d.declareFun("pow2", []string{SInt}, SInt)
		p := mk("pow2", SInt, b)
		s.assume(Implies(And(Le(IntLit(0), b), Lt(b, IntLit(64))), Gt(p, IntLit(0))))
		v.needPow2 = true
		if op == token.SHL {
			return wrapInt(Mul(a, p), w, signed)
		}
		return Div(a, p)
	}
	k := int(b.Int.Int64())
	if b.Int.Sign() < 0 {
		v.oblige(s, "nopanic", "shift", TFalse, pos, "negative shift count")
	}
	if op == token.SHL {
		if k >= w {
			return IntLit(0)
		}
		return wrapInt(Mul(a, IntLitB(Pow2(k))), w, signed)
	}
	if k >= w {
		if signed {
			return Ite(Lt(a, IntLit(0)), IntLit(-1), IntLit(0))
		}
		return IntLit(0)
	}
	return Div(a, IntLitB(Pow2(k)))
}

func (v *Verifier) arith(s *State, op token.Token, a, b *Term, t types.Type, pos token.Pos) *Term {
	if isBool(t) {
		unsupported("boolean operator %s", op)
	}
	w, signed, ok := intInfo(t)
	if !ok {
		if isFloat(t) {
			return v.floatOp(op.String(), a, b)
		}
		unsupported("arithmetic on %s", t)
	}
	if v.mode == "bv" {
		switch op {
		case token.ADD:
			return bvBin("bvadd", a, b)
		case token.SUB:
			return bvBin("bvsub", a, b)
		case token.MUL:
			return bvBin("bvmul", a, b)
		case token.AND:
			return bvBin("bvand", a, b)
		case token.OR:
			return bvBin("bvor", a, b)
		case token.XOR:
			return bvBin("bvxor", a, b)
		case token.AND_NOT:
			return bvBin("bvand", a, bvNot(b))
		case token.QUO, token.REM:
			v.oblige(s, "nopanic", "div", Neq(b, BVLit(0, w)), pos, "division by zero")
			name := map[token.Token][2]string{token.QUO: {"bvudiv", "bvsdiv"}, token.REM: {"bvurem", "bvsrem"}}[op]
			if signed {
				return bvBin(name[1], a, b)
			}
			return bvBin(name[0], a, b)
		}
		unsupported("bv operator %s", op)
	}
	if op == token.MUL || op == token.QUO || op == token.REM || op == token.AND {
		// operands whose value is fixed on this path (case splits) become literals
		if na := s.normInt(a); na.isInt() {
			a = na
		}
		if nb := s.normInt(b); nb.isInt() {
			b = nb
		}
	}
	mathOK := signed && w == 64 // int/int64: mathematical by assumption (recorded)
	wrap := func(x *Term) *Term {
		if mathOK {
			v.assumed["int64 arithmetic (+,-,*) treated as mathematical: no overflow of 64-bit signed values"] = true
			return x
		}
		return wrapInt(x, w, signed)
	}
	switch op {
	case token.ADD:
		return wrap(Add(a, b))
	case token.SUB:
		return wrap(Sub(a, b))
	case token.MUL:
		if !a.isInt() && !b.isInt() {
			return wrap(v.nlMul(s, a, b))
		}
		return wrap(Mul(a, b))
	case token.QUO, token.REM:
		v.oblige(s, "nopanic", "div", Neq(b, IntLit(0)), pos, "division by zero")
		if !signed || (b.isInt() && b.Int.Sign() > 0 && (v.nonNeg(s, a) || (v.inQuant == 0 && v.entails(s, Ge(a, IntLit(0)))))) {
			if op == token.QUO {
				return Div(a, b)
			}
			return Mod(a, b)
		}
		// truncated division for signed operands
		absA := Ite(Ge(a, IntLit(0)), a, NegI(a))
		absB := Ite(Ge(b, IntLit(0)), b, NegI(b))
		q := Div(absA, absB)
		sameSign := Eq(Ge(a, IntLit(0)), Ge(b, IntLit(0)))
		if op == token.QUO {
			return Ite(sameSign, q, NegI(q))
		}
		r := Mod(absA, absB)
		return Ite(Ge(a, IntLit(0)), r, NegI(r))
	case token.AND:
		return v.bitAnd(s, a, b, w)
	case token.OR:
		return v.bitOr(s, a, b, w, pos)
	case token.XOR:
		return v.bitUF(s, "bxor", a, b, w)
	case token.AND_NOT:
		if b.isInt() {
			m := new(big.Int).Sub(Pow2(w), big.NewInt(1))
			nb := new(big.Int).Xor(b.Int, m)
			return v.bitAnd(s, a, IntLitB(nb), w)
		}
		return v.bitUF(s, "bandnot", a, b, w)
	}
	unsupported("operator %s", op)
	return nil
}

// nonNeg: syntactic check that a term is known non-negative (lengths, mods).
func (v *Verifier) nonNeg(s *State, a *Term) bool {
	if a.isInt() {
		return a.Int.Sign() >= 0
	}
	switch a.Op {
	case "s.len", "s.cap", "mod":
		return true
	}
	want := Le(IntLit(0), a).String()
	for _, p := range s.pc {
		if p.String() == want {
			return true
		}
		if p.Op == "and" {
			for _, q := range p.Args {
				if q.String() == want {
					return true
				}
			}
		}
	}
	return false
}

// nlMul abstracts a product of two non-constant terms (int mode): an
// uninterpreted symmetric function plus sign/zero/monotonic facts.
func (v *Verifier) nlMul(s *State, a, b *Term) *Term {
	if a.String() > b.String() {
		a, b = b, a
	}
	v.d.declareFun("nlmul", []string{SInt, SInt}, SInt)
	p := mk("nlmul", SInt, a, b)
	if v.inQuant == 0 {
		z := IntLit(0)
		s.assume(Implies(And(Ge(a, z), Ge(b, z)), Ge(p, z)))
		s.assume(Implies(Or(Eq(a, z), Eq(b, z)), Eq(p, z)))
		s.assume(Implies(Eq(a, IntLit(1)), Eq(p, b)))
		s.assume(Implies(Eq(b, IntLit(1)), Eq(p, a)))
		if ua, ub := upperBound(s, a), upperBound(s, b); ua != nil && ub != nil {
			s.assume(Implies(And(Ge(a, z), Ge(b, z)), Le(p, IntLitB(new(big.Int).Mul(ua, ub)))))
		}
	}
	return p
}

func isMask(n *big.Int) (int, bool) {
	// n == 2^k - 1
	m := new(big.Int).Add(n, big.NewInt(1))
	if m.Sign() > 0 && new(big.Int).And(m, n).Sign() == 0 {
		return m.BitLen() - 1, true
	}
	return 0, false
}

func (v *Verifier) bitAnd(s *State, a, b *Term, w int) *Term {
	if a.isInt() && !b.isInt() {
		a, b = b, a
	}
	if b.isInt() && b.Int.Sign() >= 0 {
		if k, ok := isMask(b.Int); ok {
			return Mod(a, IntLitB(Pow2(k)))
		}
		// single contiguous run of ones: (a div 2^lo mod 2^n) * 2^lo
		lo := 0
		for lo < w && b.Int.Bit(lo) == 0 {
			lo++
		}
		sh := new(big.Int).Rsh(b.Int, uint(lo))
		if k, ok := isMask(sh); ok {
			return Mul(IntLitB(Pow2(lo)), Mod(Div(a, IntLitB(Pow2(lo))), IntLitB(Pow2(k))))
		}
	}
	return v.bitUF(s, "band", a, b, w)
}

func (v *Verifier) bitOr(s *State, a, b *Term, w int, pos token.Pos) *Term {
	// (x * 2^k [mod M]) | y  with 0 <= y < 2^k  ==  sum
	if k, ok := shiftedBy(a); ok {
		v.oblige(s, "bitor", "disjoint", And(Le(IntLit(0), b), Lt(b, IntLitB(Pow2(k)))), pos, "operands of | occupy disjoint bits")
		return Add(a, b)
	}
	if k, ok := shiftedBy(b); ok {
		v.oblige(s, "bitor", "disjoint", And(Le(IntLit(0), a), Lt(a, IntLitB(Pow2(k)))), pos, "operands of | occupy disjoint bits")
		return Add(a, b)
	}
	return v.bitUF(s, "bor", a, b, w)
}

// shiftedBy reports whether t is syntactically a multiple of 2^k.
func shiftedBy(t *Term) (int, bool) {
	if t.Op == "+" && !t.IsLit && len(t.Args) > 0 {
		best := -1
		for _, a := range t.Args {
			var k int
			if a.isInt() {
				if a.Int.Sign() == 0 {
					continue
				}
				k = int(new(big.Int).Abs(a.Int).TrailingZeroBits())
			} else {
				kk, ok := shiftedBy(a)
				if !ok {
					return 0, false
				}
				k = kk
			}
			if best < 0 || k < best {
				best = k
			}
		}
		if best > 0 {
			return best, true
		}
		return 0, false
	}
	if t.Op == "*" && len(t.Args) == 2 && t.Args[0].isInt() {
		n := t.Args[0].Int
		if n.Sign() > 0 && new(big.Int).And(n, new(big.Int).Sub(n, big.NewInt(1))).Sign() == 0 {
			return n.BitLen() - 1, true
		}
	}
	if t.Op == "mod" && len(t.Args) == 2 && t.Args[1].isInt() {
		// (x*2^k) mod 2^w is still a multiple of 2^k
		if k, ok := shiftedBy(t.Args[0]); ok {
			return k, true
		}
	}
	return 0, false
}

func (v *Verifier) bitUF(s *State, name string, a, b *Term, w int) *Term {
	fn := name
	v.d.declareFun(fn, []string{SInt, SInt}, SInt)
	r := mk(fn, SInt, a, b)
	if v.inQuant == 0 {
		hi := IntLitB(Pow2(w))
		switch name {
		case "band":
			s.assume(Implies(And(Ge(a, IntLit(0)), Ge(b, IntLit(0))), And(Ge(r, IntLit(0)), Le(r, a), Le(r, b))))
		default:
			s.assume(Implies(And(Ge(a, IntLit(0)), Ge(b, IntLit(0)), Lt(a, hi), Lt(b, hi)), And(Ge(r, IntLit(0)), Lt(r, hi))))
		}
		if name == "bxor" {
			s.assume(Eq(Eq(r, IntLit(0)), Eq(a, b)))
			if b.isInt() && b.Int.Sign() == 0 {
				s.assume(Eq(r, a))
			}
			if a.isInt() && a.Int.Sign() == 0 {
				s.assume(Eq(r, b))
			}
		}
		if name == "bor" {
			s.assume(Implies(And(Ge(a, IntLit(0)), Ge(b, IntLit(0))), Eq(Eq(r, IntLit(0)), And(Eq(a, IntLit(0)), Eq(b, IntLit(0))))))
		}
	}
	return r
}

func (v *Verifier) floatOp(op string, a, b *Term) *Term {
	v.d.sortsDecl["Float"] = true
	fn := "float." + smtIdent(op)
	v.d.declareFun(fn, []string{"Float", "Float"}, "Float")
	return mk(fn, "Float", a, b)
}

// ---------------- conversions ----------------

func (v *Verifier) convert(s *State, x *Term, from, to types.Type, pos token.Pos) *Term {
	if types.Identical(from.Underlying(), to.Underlying()) {
		return x
	}
	fw, fs, fok := intInfo(from)
	tw, ts, tok := intInfo(to)
	if fok && tok {
		if v.mode == "bv" {
			switch {
			case tw == fw:
				return x
			case tw < fw:
				return bvExtract(tw-1, 0, x)
			default:
				if fs {
					return bvSignExt(tw-fw, x)
				}
				return bvZeroExt(tw-fw, x)
			}
		}
		flo, fhi := typeRange(fw, fs)
		tlo, thi := typeRange(tw, ts)
		if flo.Cmp(tlo) >= 0 && fhi.Cmp(thi) <= 0 {
			return x
		}
		return wrapInt(x, tw, ts)
	}
	_, toIface := to.Underlying().(*types.Interface)
	if toIface {
		if _, fromIface := from.Underlying().(*types.Interface); fromIface {
			return x
		}
		return v.toIface(s, x, from)
	}
	if isString(to) {
		if sl, ok := from.Underlying().(*types.Slice); ok {
			_ = sl
			return v.bytesToStr(s, x)
		}
		if fok {
			unsupported("string(int)")
		}
	}
	if sl, ok := to.Underlying().(*types.Slice); ok && isString(from) {
		_ = sl
		return v.strToBytes(s, x)
	}
	if v.sortOf(from) == v.sortOf(to) {
		return x
	}
	if isFloat(to) || isFloat(from) {
		v.d.sortsDecl["Float"] = true
		fn := "conv." + sortTag(v.sortOf(from)) + "." + sortTag(v.sortOf(to))
		v.d.declareFun(fn, []string{v.sortOf(from)}, v.sortOf(to))
		r := mk(fn, v.sortOf(to), x)
		s.assume(v.typeFacts(s, r, to))
		return r
	}
	// struct-to-struct conversion with identical fields
	if st1, ok1 := from.Underlying().(*types.Struct); ok1 {
		if st2, ok2 := to.Underlying().(*types.Struct); ok2 && st1.NumFields() == st2.NumFields() {
			si1 := v.structInfoOf(from)
			si2 := v.structInfoOf(to)
			args := make([]*Term, st1.NumFields())
			for i := range args {
				args[i] = acc(si1.fields[i], i, si1.fsorts[i], x)
			}
			if len(args) == 0 {
				return Const(si2.ctor, si2.sort)
			}
			return mk(si2.ctor, si2.sort, args...)
		}
	}
	unsupported("conversion from %s to %s at %s", from, to, v.pos(pos))
	return nil
}

// strToBytes: []byte(s): a fresh slice whose contents are the string's bytes.
func (v *Verifier) strToBytes(s *State, str *Term) *Term {
	n := v.strLen(str)
	s.assume(Le(IntLit(0), n))
	s.assume(Le(n, IntLitB(maxLen)))
	base := v.allocRef(s)
	name, h, es := v.sliceHeap(s, types.Typ[types.Byte])
	v.d.declareFun("gstr.bytes", []string{SStr}, SArr(SInt, es))
	s.heaps[name] = Store(h, base, mk("gstr.bytes", SArr(SInt, es), str))
	return MkSlice(base, IntLit(0), n, n)
}

// bytesToStr: string(b): an abstract string determined by the byte window.
func (v *Verifier) bytesToStr(s *State, sl *Term) *Term {
	_, h, es := v.sliceHeap(s, types.Typ[types.Byte])
	w := v.window(s, v.hsel(s, h, SBase(sl)), SOff(sl), SLen(sl))
	v.d.declareFun("gstr.of", []string{SArr(SInt, es), SInt}, SStr)
	r := mk("gstr.of", SStr, w, SLen(sl))
	s.assume(Eq(v.strLen(r), SLen(sl)))
	v.d.declareFun("gstr.bytes", []string{SStr}, SArr(SInt, es))
	s.assume(Eq(mk("gstr.bytes", SArr(SInt, es), r), w))
	return r
}

// window returns the normalised array W with W[i] = A[off+i] for 0<=i<n and
// the zero element elsewhere; introduced as a fresh constant with a defining
// axiom so that equal windows are equal arrays (extensionality).
func (v *Verifier) window(s *State, arr, off, n *Term) *Term {
	off, n = s.normInt(off), s.normInt(n)
	if v.inQuant > 0 {
		v.noBoundVars("byte-string window", arr, off, n)
	}
	key := arr.String() + "|" + off.String() + "|" + n.String()
	if w, ok := v.windows[key]; ok {
		// the defining axiom must be on this path as well
		for _, p := range s.pc {
			if p == w.axiom {
				return w.c
			}
		}
		s.pc = append(s.pc, w.axiom)
		s.pc = append(s.pc, w.lemmas...)
		return w.c
	}
	_, es, _ := arrSorts(arr.Sort)
	w := v.fresh("win", arr.Sort)
	i := v.fresh("wi", SInt)
	var zero *Term
	if bw, ok := isBVSort(es); ok {
		zero = BVLit(0, bw)
	} else if es == SInt {
		zero = IntLit(0)
	} else {
		unsupported("window over %s", es)
	}
	in := And(Le(IntLit(0), i), Lt(i, n))
	ax := Forall([]*Term{i}, Eq(Select(w, i), Ite(in, Select(arr, Add(off, i)), zero)), mk("select", es, w, i))
	// reverse direction, triggered by reads of the underlying array
	if arr.Op != "const-array" {
		a := v.fresh("wa", SInt)
		rev := Forall([]*Term{a}, Implies(And(Le(off, a), Lt(a, Add(off, n))), Eq(Select(w, Sub(a, off)), Select(arr, a))), mk("select", es, arr, a))
		ax = And(ax, rev)
	}
	wi := &winInfo{c: w, axiom: ax, kind: "len|" + s.normKey(n).String()}
	v.windows[key] = wi
	s.pc = append(s.pc, ax)
	v.extLemmas(s, wi)
	return w
}

type winInfo struct {
	c      *Term
	axiom  *Term
	lemmas []*Term
	kind   string // windows of the same length / concatenations of the same length are paired
}

// extLemmas adds, for the new defined array x and every earlier defined array y
// of the same sort, the extensionality instance  x = y  or  x[k] != y[k]  (k fresh).
// It is a tautology of the array theory; its purpose is to put the ground terms
// x[k], y[k] into the solver's E-graph so that the defining axioms fire.
func (v *Verifier) extLemmas(s *State, x *winInfo) {
	if v.inQuant > 0 {
		return
	}
	for _, y := range v.defArrays {
		if y.c.Sort != x.c.Sort || y.kind != x.kind {
			continue
		}
		k := v.fresh("xk", SInt)
		lm := Or(Eq(x.c, y.c), Neq(Select(x.c, k), Select(y.c, k)))
		x.lemmas = append(x.lemmas, lm)
		y.lemmas = append(y.lemmas, lm)
		s.pc = append(s.pc, lm)
	}
	// also against the all-zero array (the representation of bzeros(n))
	if _, es, ok := arrSorts(x.c.Sort); ok && (es == SInt || strings.HasPrefix(es, "(_ BitVec")) {
		k := v.fresh("xk", SInt)
		z := ConstArray(x.c.Sort, zeroOfSort(es))
		lm := Or(Eq(x.c, z), Neq(Select(x.c, k), zeroOfSort(es)))
		x.lemmas = append(x.lemmas, lm)
		s.pc = append(s.pc, lm)
	}
	v.defArrays = append(v.defArrays, x)
	if len(v.defArrays) > 60 {
		v.defArrays = v.defArrays[1:]
	}
}

// toIface boxes a concrete value into an interface value.
func (v *Verifier) toIface(s *State, x *Term, t types.Type) *Term {
	if _, ok := t.Underlying().(*types.Interface); ok {
		return x
	}
	if b, ok := t.(*types.Basic); ok && b.Kind() == types.UntypedNil {
		return NilIface
	}
	id := v.d.typeID(types.TypeString(t, nil))
	tag := IntLit(int64(id))
	switch t.Underlying().(type) {
	case *types.Pointer, *types.Map, *types.Chan, *types.Signature:
		return MkIface(tag, x)
	}
	// non-pointer payload: injective boxing function per sort
	fn := "box." + sortTag(x.Sort)
	v.d.declareFun(fn, []string{x.Sort}, SInt)
	un := "unbox." + sortTag(x.Sort)
	v.d.declareFun(un, []string{SInt}, x.Sort)
	b := mk(fn, SInt, x)
	if v.inQuant == 0 {
		s.assume(Eq(mk(un, x.Sort, b), x))
	}
	return MkIface(tag, b)
}

func (v *Verifier) fromIface(s *State, x *Term, t types.Type) *Term {
	switch t.Underlying().(type) {
	case *types.Pointer, *types.Map, *types.Chan, *types.Signature:
		return IVal(x)
	case *types.Interface:
		return x
	}
	so := v.sortOf(t)
	un := "unbox." + sortTag(so)
	v.d.declareFun("box."+sortTag(so), []string{so}, SInt)
	v.d.declareFun(un, []string{SInt}, so)
	r := mk(un, so, IVal(x))
	return r
}

// ---------------- composite literals ----------------

func (v *Verifier) evalCompositeLit(s *State, x *ast.CompositeLit) *Term {
	t := v.typeOf(x)
	switch u := t.Underlying().(type) {
	case *types.Struct:
		si := v.structInfoOf(t)
		args := make([]*Term, u.NumFields())
		for i := range args {
			args[i] = v.zeroOf(u.Field(i).Type())
		}
		for i, el := range x.Elts {
			if kv, ok := el.(*ast.KeyValueExpr); ok {
				name := kv.Key.(*ast.Ident).Name
				idx := -1
				for j := 0; j < u.NumFields(); j++ {
					if u.Field(j).Name() == name {
						idx = j
					}
				}
				if idx < 0 {
					unsupported("unknown field %s", name)
				}
				args[idx] = v.evalTo(s, kv.Value, u.Field(idx).Type())
			} else {
				args[i] = v.evalTo(s, el, u.Field(i).Type())
			}
		}
		if len(args) == 0 {
			return Const(si.ctor, si.sort)
		}
		return mk(si.ctor, si.sort, args...)
	case *types.Array:
		arr := v.zeroOf(t)
		idx := int64(0)
		for _, el := range x.Elts {
			val := el
			if kv, ok := el.(*ast.KeyValueExpr); ok {
				tv := v.info.Types[kv.Key]
				if tv.Value == nil {
					unsupported("non-constant array key")
				}
				idx, _ = constant.Int64Val(tv.Value)
				val = kv.Value
			}
			arr = Store(arr, IntLit(idx), v.evalTo(s, val, u.Elem()))
			idx++
		}
		return arr
	case *types.Slice:
		// allocate a fresh base holding the elements
		es := v.sortOf(u.Elem())
		arr := ConstArray(SArr(SInt, es), v.zeroOf(u.Elem()))
		idx := int64(0)
		n := int64(0)
		for _, el := range x.Elts {
			val := el
			if kv, ok := el.(*ast.KeyValueExpr); ok {
				tv := v.info.Types[kv.Key]
				if tv.Value == nil {
					unsupported("non-constant slice key")
				}
				idx, _ = constant.Int64Val(tv.Value)
				val = kv.Value
			}
			arr = Store(arr, IntLit(idx), v.evalTo(s, val, u.Elem()))
			idx++
			if idx > n {
				n = idx
			}
		}
		base := v.allocRef(s)
		name := v.sliceHeapNameT(u.Elem())
		h := v.getHeap(s, name, v.sliceHeapSort(es))
		s.heaps[name] = Store(h, base, arr)
		return MkSlice(base, IntLit(0), IntLit(n), IntLit(n))
	case *types.Map:
		m := v.newMap(s, u)
		for _, el := range x.Elts {
			kv := el.(*ast.KeyValueExpr)
			k := v.evalTo(s, kv.Key, u.Key())
			val := v.evalTo(s, kv.Value, u.Elem())
			v.mapStore(s, m, k, val, u)
		}
		return m
	}
	unsupported("composite literal of %s", t)
	return nil
}

// evalTo evaluates e and converts it to the destination type (interface boxing).
func (v *Verifier) evalTo(s *State, e ast.Expr, to types.Type) *Term {
	// composite literal elements may omit their type
	if cl, ok := e.(*ast.CompositeLit); ok && cl.Type == nil {
		if pt, isPtr := to.Underlying().(*types.Pointer); isPtr {
			_ = pt
			return v.addrOf(s, cl)
		}
	}
	from := v.typeOf(e)
	if b, ok := from.(*types.Basic); ok && b.Kind() == types.UntypedNil && to != nil {
		return v.zeroOf(to)
	}
	x := v.eval(s, e)
	return v.coerce(s, x, from, to)
}

func (v *Verifier) coerce(s *State, x *Term, from, to types.Type) *Term {
	if to == nil {
		return x
	}
	if _, isTP := to.(*types.TypeParam); isTP {
		return x // generic parameter: the value keeps its concrete representation
	}
	if _, toI := to.Underlying().(*types.Interface); toI {
		if _, isTP := to.(*types.TypeParam); !isTP {
			return v.toIface(s, x, from)
		}
		return v.toIface(s, x, from)
	}
	return x
}

func (v *Verifier) evalFuncLit(s *State, x *ast.FuncLit) *Term {
	// function literals are values identified by their ordinal; calls through
	// variables bound to a literal are resolved by the call translator.
	id := v.d.typeID("lit:" + v.pos(x.Pos()))
	v.lits[id] = litInfo{x, v.pkg}
	return IntLit(int64(-1000 - id))
}

// ---------------- maps ----------------

func (v *Verifier) mapHeaps(s *State, mt *types.Map) (hasN, valN string, has, val *Term) {
	ks, vs := v.sortOf(mt.Key()), v.sortOf(mt.Elem())
	tag := sortTag(ks) + "_" + sortTag(vs)
	hasN, valN = "Mh_"+tag, "Mv_"+tag
	has = v.getHeap(s, hasN, SArr(SInt, SArr(ks, SBool)))
	val = v.getHeap(s, valN, SArr(SInt, SArr(ks, vs)))
	return
}

func (v *Verifier) mapLookup(s *State, m, k *Term, mt *types.Map) (has, val *Term) {
	_, _, hh, hv := v.mapHeaps(s, mt)
	has = And(Neq(m, IntLit(0)), Select(Select(hh, m), k))
	val = Select(Select(hv, m), k)
	v.noteRead(s, val, mt.Elem())
	return
}

func (v *Verifier) mapStore(s *State, m, k, val *Term, mt *types.Map) {
	hn, vn, hh, hv := v.mapHeaps(s, mt)
	s.heaps[hn] = Store(hh, m, Store(Select(hh, m), k, TTrue))
	s.heaps[vn] = Store(hv, m, Store(Select(hv, m), k, val))
}

func (v *Verifier) mapDelete(s *State, m, k *Term, mt *types.Map) {
	hn, _, hh, _ := v.mapHeaps(s, mt)
	s.heaps[hn] = Store(hh, m, Store(Select(hh, m), k, TFalse))
}

func (v *Verifier) newMap(s *State, mt *types.Map) *Term {
	ref := v.allocRef(s)
	hn, _, hh, _ := v.mapHeaps(s, mt)
	ks := v.sortOf(mt.Key())
	s.heaps[hn] = Store(hh, ref, ConstArray(SArr(ks, SBool), TFalse))
	return ref
}

// ---------------- type assertions ----------------

func (v *Verifier) evalTypeAssert(s *State, x *ast.TypeAssertExpr, commaOk bool) []*Term {
	iv := v.eval(s, x.X)
	to := v.typeOf(x.Type)
	if _, toI := to.Underlying().(*types.Interface); toI {
		// interface-to-interface: succeeds iff dynamic type implements; abstract
		v.d.declareFun("implements", []string{SInt, SInt}, SBool)
		ok := And(Neq(IType(iv), IntLit(0)), mk("implements", SBool, IType(iv), IntLit(int64(v.d.typeID("iface:"+types.TypeString(to, nil))))))
		if !commaOk {
			v.oblige(s, "nopanic", "type-assert", ok, x.Pos(), "type assertion succeeds")
			s.assume(ok)
			return []*Term{iv}
		}
		return []*Term{Ite(ok, iv, NilIface), ok}
	}
	id := v.d.typeID(types.TypeString(to, nil))
	ok := Eq(IType(iv), IntLit(int64(id)))
	val := v.fromIface(s, iv, to)
	if !commaOk {
		v.oblige(s, "nopanic", "type-assert", ok, x.Pos(), "type assertion succeeds")
		s.assume(ok)
		return []*Term{val}
	}
	return []*Term{Ite(ok, val, v.zeroOf(to)), ok}
}

// upperBound finds a constant upper bound of t among the assumptions.
func upperBound(s *State, t *Term) *big.Int {
	if t.isInt() {
		return t.Int
	}
	var best *big.Int
	upd := func(n *big.Int) {
		if best == nil || n.Cmp(best) < 0 {
			best = n
		}
	}
	if t.Op == "mod" && t.Args[1].isInt() {
		upd(new(big.Int).Sub(t.Args[1].Int, big.NewInt(1)))
	}
	ts := t.String()
	for _, p := range s.pc {
		if len(p.Args) != 2 {
			continue
		}
		switch p.Op {
		case "<":
			if p.Args[1].isInt() && p.Args[0].String() == ts {
				upd(new(big.Int).Sub(p.Args[1].Int, big.NewInt(1)))
			}
		case "<=":
			if p.Args[1].isInt() && p.Args[0].String() == ts {
				upd(p.Args[1].Int)
			}
		case ">":
			if p.Args[0].isInt() && p.Args[1].String() == ts {
				upd(new(big.Int).Sub(p.Args[0].Int, big.NewInt(1)))
			}
		case ">=":
			if p.Args[0].isInt() && p.Args[1].String() == ts {
				upd(p.Args[0].Int)
			}
		}
	}
	return best
}

// noBoundVars: definitions by fresh constants must not depend on quantified variables.
func (v *Verifier) noBoundVars(what string, ts ...*Term) {
	for _, t := range ts {
		cs := map[string]string{}
		t.Symbols(cs, map[string]bool{})
		for k := range cs {
			if strings.HasPrefix(k, "q_") {
				unsupported("%s depends on the quantified variable %s: wrap the construction in an opaque spec function and unfold it at the instance", what, k)
			}
		}
	}
}

// globalArrayBase: a package-level array variable that is sliced lives at a fixed base
// that existed before the call; it is assumed to still hold its initial value (the
// check that no function under contract writes it is part of the frame obligations).
func (v *Verifier) globalArrayBase(s *State, o *types.Var) *Term {
	at, ok := o.Type().Underlying().(*types.Array)
	if !ok {
		unsupported("slicing package variable %s", o.Name())
	}
	b := Const("gbase."+smtIdent(o.Pkg().Name()+"."+o.Name()), SInt)
	key := "gbase:" + b.Op
	if !s.locks[key] {
		s.locks[key] = true
		s.assume(existed(b, v.entry.alloc))
		s.assume(Lt(IntLit(0), b))
		_, h, _ := v.sliceHeap(s, at.Elem())
		var init *Term
		if ie := v.eng.globalInit(o); ie != nil {
			init = v.evalTable(o, ie)
		} else {
			init = v.zeroOf(o.Type())
		}
		if init != nil && s.epoch == 0 {
			ent := v.entryHeap(v.sliceHeapNameT(at.Elem()), h.Sort)
			s.assume(Eq(Select(ent, b), init))
			v.assumed["package-level array "+o.Pkg().Name()+"."+o.Name()+" holds its initial value at entry (never modified after init)"] = true
		}
	}
	return b
}
