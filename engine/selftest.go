package main

// Must-fail corpus: each mutant replaces a text fragment of a /repo file in an
// in-memory overlay and must make the named obligation fail.

import (
	"encoding/json"
	"flag"
	"fmt"
	"os"
	"path/filepath"
	"sort"
	"strings"
)

type Mutant struct {
	Name     string   `json:"name"`
	Property string   `json:"property"`
	File     string   `json:"file"`
	Old      string   `json:"old"`
	New      string   `json:"new"`
	Expect   []string `json:"expect"` // substrings; at least one failed obligation must contain one of them
	MustPass bool     `json:"must_pass"`
	Note     string   `json:"note"`
}

func cmdSelftest(args []string) int {
	fs := flag.NewFlagSet("selftest", flag.ExitOnError)
	prop := fs.String("prop", "", "only mutants of this property")
	name := fs.String("name", "", "only mutants whose name contains this")
	fs.Parse(args)
	files, _ := filepath.Glob(filepath.Join(verifRoot, "selftest", "mutants", "*.json"))
	sort.Strings(files)
	bad := 0
	n := 0
	for _, f := range files {
		b, err := os.ReadFile(f)
		if err != nil {
			fmt.Println("ERROR", err)
			return 2
		}
		var ms []Mutant
		if err := json.Unmarshal(b, &ms); err != nil {
			fmt.Println("ERROR", f, err)
			return 2
		}
		for _, m := range ms {
			if *prop != "" && m.Property != *prop {
				continue
			}
			if *name != "" && !strings.Contains(m.Name, *name) {
				continue
			}
			n++
			path := filepath.Join(repoRoot, m.File)
			src, err := os.ReadFile(path)
			if err != nil {
				fmt.Println("ERROR", err)
				return 2
			}
			if strings.Count(string(src), m.Old) != 1 {
				fmt.Printf("SELFTEST-STALE %s: fragment occurs %d times in %s\n", m.Name, strings.Count(string(src), m.Old), m.File)
				bad++
				continue
			}
			mut := strings.Replace(string(src), m.Old, m.New, 1)
			// a mutant changes the obligations of its own package (callers elsewhere use
			// contracts): check that package first, the whole property only if nothing was hit
			pkgPath := repoModule
			if d := filepath.Dir(m.File); d != "." {
				pkgPath = repoModule + "/" + filepath.ToSlash(d)
			}
			hitIn := func(r proveResult) bool {
				for _, fo := range r.failed {
					for _, ex := range m.Expect {
						if strings.Contains(fo, ex) {
							return true
						}
					}
				}
				return false
			}
			var r proveResult
			if !m.MustPass && os.Getenv("GVC_SELFTEST_FULL") == "" {
				noRetryPhase = true
				r = runProve(proveOpts{prop: m.Property, tier: "quick", overlay: map[string][]byte{path: []byte(mut)}, quiet: true, noEvidence: true, onlyPkg: pkgPath, onlyFile: path})
				noRetryPhase = false
			}
			if m.MustPass || os.Getenv("GVC_SELFTEST_FULL") != "" || !hitIn(r) {
				r = runProve(proveOpts{prop: m.Property, tier: "quick", overlay: map[string][]byte{path: []byte(mut)}, quiet: true, noEvidence: true})
			}
			if m.MustPass {
				if r.code != 0 {
					fmt.Printf("SELFTEST-FAIL %s (must pass): %v\n", m.Name, r.lines)
					bad++
				} else {
					fmt.Printf("selftest ok   %s (harmless change still verifies)\n", m.Name)
				}
				continue
			}
			hit := ""
			for _, fo := range r.failed {
				for _, ex := range m.Expect {
					if strings.Contains(fo, ex) {
						hit = fo
					}
				}
			}
			switch {
			case r.code == 2 && hit == "":
				// (a mutant may also make a return path dead; that is reported as a vacuity
				// error next to the failed obligation and is not a problem of the tool)
				fmt.Printf("SELFTEST-FAIL %s: tool error %v\n", m.Name, r.lines)
				bad++
			case hit == "":
				fmt.Printf("SELFTEST-FAIL %s: expected a failed obligation matching %v, got %v\n", m.Name, m.Expect, r.failed)
				bad++
			default:
				fmt.Printf("selftest ok   %s -> %s (+%d more)\n", m.Name, hit, len(r.failed)-1)
			}
		}
	}
	fmt.Printf("selftest: %d mutants, %d problems\n", n, bad)
	if bad > 0 {
		return 1
	}
	return 0
}
