package main

// Statement execution: forward symbolic execution with forking.

import (
	"fmt"
	"go/ast"
	"go/token"
	"go/types"
	"strconv"
	"strings"
)

func (v *Verifier) name(s *State, hint string, t *Term) *Term {
	if t.IsLit || t.Size() <= 24 {
		return t
	}
	if t.Op == "mk-slice" || t.Op == "mk-iface" {
		// keep the constructor visible; name only large components
		args := make([]*Term, len(t.Args))
		for i, a := range t.Args {
			if a.Size() > 40 {
				args[i] = v.name(s, hint, a)
			} else {
				args[i] = a
			}
		}
		return mk(t.Op, t.Sort, args...)
	}
	c := v.fresh(hint, t.Sort)
	s.assume(Eq(c, t))
	return c
}

func (v *Verifier) declareVar(s *State, obj types.Object, val *Term) {
	if obj == nil {
		return
	}
	vr, ok := obj.(*types.Var)
	if !ok {
		return
	}
	if v.boxed[vr] {
		ref := v.allocRef(s)
		v.storePtr(s, ref, vr.Type(), val)
		if v.zeroDecl {
			v.zeroGhost(s, ref, vr.Type())
		}
		s.vars[vr] = ref
		return
	}
	s.vars[vr] = v.name(s, vr.Name(), val)
}

func (v *Verifier) setVar(s *State, vr *types.Var, val *Term) {
	if v.boxed[vr] {
		ref, ok := s.vars[vr]
		if !ok {
			unsupported("assignment to undeclared boxed variable %s", vr.Name())
		}
		v.storePtr(s, ref, vr.Type(), val)
		return
	}
	if _, ok := s.vars[vr]; !ok && vr.Parent() == vr.Pkg().Scope() {
		s.heaps[v.globalName(vr)] = val
		v.globalsWritten[v.globalName(vr)] = true
		return
	}
	s.vars[vr] = v.name(s, vr.Name(), val)
}

// assign stores val into the lvalue e.
func (v *Verifier) assign(s *State, e ast.Expr, val *Term) {
	switch x := e.(type) {
	case *ast.ParenExpr:
		v.assign(s, x.X, val)
	case *ast.Ident:
		if x.Name == "_" {
			return
		}
		obj, ok := v.info.ObjectOf(x).(*types.Var)
		if !ok {
			unsupported("assignment to %s", x.Name)
		}
		v.setVar(s, obj, val)
	case *ast.SelectorExpr:
		if id, ok := x.X.(*ast.Ident); ok {
			if _, isPkg := v.info.ObjectOf(id).(*types.PkgName); isPkg {
				o, _ := v.info.ObjectOf(x.Sel).(*types.Var)
				if o == nil {
					unsupported("assignment to %s.%s", id.Name, x.Sel.Name)
				}
				s.heaps[v.globalName(o)] = val
				v.globalsWritten[v.globalName(o)] = true
				return
			}
		}
		if ref, st, idx, ok := v.fieldRef(s, x); ok {
			v.storeField(s, ref, st, idx, val)
			return
		}
		sel := v.info.Selections[x]
		if sel == nil || sel.Kind() != types.FieldVal || len(sel.Index()) != 1 {
			unsupported("assignment through embedded struct value")
		}
		cur := v.eval(s, x.X)
		si := v.structInfoOf(sel.Recv())
		fi := sel.Index()[0]
		args := make([]*Term, len(si.fields))
		for i := range args {
			if i == fi {
				args[i] = val
			} else {
				args[i] = acc(si.fields[i], i, si.fsorts[i], cur)
			}
		}
		v.assign(s, x.X, mk(si.ctor, si.sort, args...))
	case *ast.IndexExpr:
		xt := v.typeOf(x.X)
		switch u := xt.Underlying().(type) {
		case *types.Slice:
			sl := v.eval(s, x.X)
			i := v.idxInt(v.eval(s, x.Index), v.typeOf(x.Index))
			v.oblige(s, "nopanic", "index", And(Le(IntLit(0), i), Lt(i, SLen(sl))), x.Pos(), "slice index in range")
			s.assume(And(Le(IntLit(0), i), Lt(i, SLen(sl))))
			v.writeElem(s, sl, i, u.Elem(), val)
		case *types.Array:
			arr := v.eval(s, x.X)
			i := v.idxInt(v.eval(s, x.Index), v.typeOf(x.Index))
			v.oblige(s, "nopanic", "index", And(Le(IntLit(0), i), Lt(i, IntLit(u.Len()))), x.Pos(), "array index in range")
			s.assume(And(Le(IntLit(0), i), Lt(i, IntLit(u.Len()))))
			v.assign(s, x.X, Store(arr, i, val))
		case *types.Pointer:
			at, ok := u.Elem().Underlying().(*types.Array)
			if !ok {
				unsupported("index assignment through pointer to %s", u.Elem())
			}
			p := v.eval(s, x.X)
			v.nonNil(s, p, xt, x.Pos())
			i := v.idxInt(v.eval(s, x.Index), v.typeOf(x.Index))
			v.oblige(s, "nopanic", "index", And(Le(IntLit(0), i), Lt(i, IntLit(at.Len()))), x.Pos(), "array index in range")
			s.assume(And(Le(IntLit(0), i), Lt(i, IntLit(at.Len()))))
			name, h, _ := v.sliceHeap(s, at.Elem())
			s.heaps[name] = Store(h, p, Store(v.hsel(s, h, p), i, val))
		case *types.Map:
			m := v.eval(s, x.X)
			k := v.eval(s, x.Index)
			v.oblige(s, "nopanic", "nil-map", Neq(m, IntLit(0)), x.Pos(), "assignment to entry in nil map")
			v.mapStore(s, m, k, val, u)
		default:
			unsupported("index assignment on %s", xt)
		}
	case *ast.StarExpr:
		p := v.eval(s, x.X)
		pt := v.typeOf(x.X).Underlying().(*types.Pointer)
		v.nonNil(s, p, pt, x.Pos())
		v.storePtr(s, p, pt.Elem(), val)
	default:
		unsupported("assignment to %T", e)
	}
}

func (v *Verifier) execBlock(s *State, list []ast.Stmt) []*Flow {
	flows := []*Flow{{St: s, Kind: flowNormal}}
	for _, st := range list {
		var next []*Flow
		for _, f := range flows {
			if f.Kind != flowNormal || f.St.dead {
				if !f.St.dead {
					next = append(next, f)
				}
				continue
			}
			v.ghostAsserts(f.St, st, "before")
			for _, nf := range v.execStmt(f.St, st) {
				if nf.Kind == flowNormal && !nf.St.dead {
					v.ghostAsserts(nf.St, st, "after")
				}
				next = append(next, nf)
			}
		}
		flows = next
		v.npaths = max(v.npaths, len(flows))
		if len(flows) > v.pathCap {
			unsupported("path explosion (> %d paths)", v.pathCap)
		}
	}
	return flows
}

func normal(s *State) []*Flow { return []*Flow{{St: s, Kind: flowNormal}} }

func (v *Verifier) execStmt(s *State, st ast.Stmt) []*Flow {
	switch x := st.(type) {
	case *ast.EmptyStmt:
		return normal(s)
	case *ast.BlockStmt:
		return v.execBlock(s, x.List)
	case *ast.ExprStmt:
		if call, ok := x.X.(*ast.CallExpr); ok {
			if id, ok := call.Fun.(*ast.Ident); ok && id.Name == "panic" {
				if _, isB := v.info.ObjectOf(id).(*types.Builtin); isB {
					v.oblige(s, "nopanic", "panic", TFalse, x.Pos(), "reachable panic(...)")
					return nil
				}
			}
			v.evalCall(s, call)
			if s.dead {
				return nil
			}
			return normal(s)
		}
		v.eval(s, x.X)
		return normal(s)
	case *ast.DeclStmt:
		gd := x.Decl.(*ast.GenDecl)
		if gd.Tok == token.VAR {
			for _, sp := range gd.Specs {
				vs := sp.(*ast.ValueSpec)
				if len(vs.Values) == 0 {
					for _, n := range vs.Names {
						obj := v.info.Defs[n]
						if obj != nil {
							v.zeroDecl = true
							v.declareVar(s, obj, v.zeroOf(obj.Type()))
							v.zeroDecl = false
						}
					}
				} else if len(vs.Values) == len(vs.Names) {
					for i, n := range vs.Names {
						obj := v.info.Defs[n]
						if obj != nil {
							v.declareVar(s, obj, v.evalTo(s, vs.Values[i], obj.Type()))
						} else {
							v.eval(s, vs.Values[i])
						}
					}
				} else {
					rs := v.evalMulti(s, vs.Values[0], len(vs.Names))
					for i, n := range vs.Names {
						if obj := v.info.Defs[n]; obj != nil {
							v.declareVar(s, obj, rs[i])
						}
					}
				}
			}
		}
		return normal(s)
	case *ast.AssignStmt:
		v.execAssign(s, x)
		if s.dead {
			return nil
		}
		return normal(s)
	case *ast.IncDecStmt:
		t := v.typeOf(x.X)
		cur := v.eval(s, x.X)
		op := token.ADD
		if x.Tok == token.DEC {
			op = token.SUB
		}
		v.assign(s, x.X, v.arith(s, op, cur, v.intConst(1, t), t, x.Pos()))
		return normal(s)
	case *ast.ReturnStmt:
		return v.execReturn(s, x)
	case *ast.IfStmt:
		return v.execIf(s, x)
	case *ast.ForStmt:
		return v.execFor(s, x, "")
	case *ast.RangeStmt:
		return v.execRange(s, x, "")
	case *ast.LabeledStmt:
		switch in := x.Stmt.(type) {
		case *ast.ForStmt:
			return v.execFor(s, in, x.Label.Name)
		case *ast.RangeStmt:
			return v.execRange(s, in, x.Label.Name)
		}
		return v.execStmt(s, x.Stmt)
	case *ast.SwitchStmt:
		return v.execSwitch(s, x)
	case *ast.TypeSwitchStmt:
		return v.execTypeSwitch(s, x)
	case *ast.BranchStmt:
		lbl := ""
		if x.Label != nil {
			lbl = x.Label.Name
		}
		switch x.Tok {
		case token.BREAK:
			return []*Flow{{St: s, Kind: flowBreak, Label: lbl}}
		case token.CONTINUE:
			return []*Flow{{St: s, Kind: flowContinue, Label: lbl}}
		}
		unsupported("branch %s", x.Tok)
	case *ast.DeferStmt:
		s.defers = append(s.defers, x.Call)
		return normal(s)
	case *ast.GoStmt:
		unsupported("go statement")
	}
	unsupported("statement %T at %s", st, v.pos(st.Pos()))
	return nil
}

func (v *Verifier) evalMulti(s *State, e ast.Expr, n int) []*Term {
	switch x := ast.Unparen(e).(type) {
	case *ast.CallExpr:
		rs := v.evalCall(s, x)
		if len(rs) != n {
			unsupported("call yields %d values, want %d", len(rs), n)
		}
		return rs
	case *ast.TypeAssertExpr:
		return v.evalTypeAssert(s, x, true)
	case *ast.IndexExpr:
		mt, ok := v.typeOf(x.X).Underlying().(*types.Map)
		if !ok {
			unsupported("comma-ok on non-map index")
		}
		m := v.eval(s, x.X)
		k := v.eval(s, x.Index)
		has, val := v.mapLookup(s, m, k, mt)
		return []*Term{Ite(has, val, v.zeroOf(mt.Elem())), has}
	}
	unsupported("multi-value expression %T", e)
	return nil
}

func (v *Verifier) execAssign(s *State, x *ast.AssignStmt) {
	if x.Tok != token.ASSIGN && x.Tok != token.DEFINE {
		// op-assign
		var op token.Token
		switch x.Tok {
		case token.ADD_ASSIGN:
			op = token.ADD
		case token.SUB_ASSIGN:
			op = token.SUB
		case token.MUL_ASSIGN:
			op = token.MUL
		case token.QUO_ASSIGN:
			op = token.QUO
		case token.REM_ASSIGN:
			op = token.REM
		case token.AND_ASSIGN:
			op = token.AND
		case token.OR_ASSIGN:
			op = token.OR
		case token.XOR_ASSIGN:
			op = token.XOR
		case token.SHL_ASSIGN:
			op = token.SHL
		case token.SHR_ASSIGN:
			op = token.SHR
		case token.AND_NOT_ASSIGN:
			op = token.AND_NOT
		}
		t := v.typeOf(x.Lhs[0])
		cur := v.eval(s, x.Lhs[0])
		rhs := v.eval(s, x.Rhs[0])
		var res *Term
		if op == token.SHL || op == token.SHR {
			res = v.shift(s, op, cur, rhs, t, v.typeOf(x.Rhs[0]), x.Pos())
		} else if isString(t) && op == token.ADD {
			v.d.declareFun("gstr.cat", []string{SStr, SStr}, SStr)
			res = mk("gstr.cat", SStr, cur, rhs)
			s.assume(Eq(v.strLen(res), Add(v.strLen(cur), v.strLen(rhs))))
		} else {
			res = v.arith(s, op, cur, rhs, t, x.Pos())
		}
		v.assign(s, x.Lhs[0], res)
		return
	}
	var vals []*Term
	if len(x.Lhs) == len(x.Rhs) {
		for i, r := range x.Rhs {
			var to types.Type
			if id, ok := x.Lhs[i].(*ast.Ident); ok && id.Name == "_" {
				to = nil
			} else if x.Tok == token.DEFINE {
				if id, ok := x.Lhs[i].(*ast.Ident); ok {
					if o := v.info.Defs[id]; o != nil {
						to = o.Type()
					} else if o := v.info.Uses[id]; o != nil {
						to = o.Type()
					}
				}
			} else {
				to = v.typeOf(x.Lhs[i])
			}
			vals = append(vals, v.evalTo(s, r, to))
		}
	} else {
		vals = v.evalMulti(s, x.Rhs[0], len(x.Lhs))
		// coerce to interface-typed destinations
		if call, ok := ast.Unparen(x.Rhs[0]).(*ast.CallExpr); ok {
			if tup, ok := v.typeOf(call).(*types.Tuple); ok {
				for i := range vals {
					var to types.Type
					if id, ok := x.Lhs[i].(*ast.Ident); ok && id.Name == "_" {
						continue
					} else if ok && x.Tok == token.DEFINE && v.info.Defs[id] != nil {
						to = v.info.Defs[id].Type()
					} else {
						to = v.typeOf(x.Lhs[i])
					}
					vals[i] = v.coerce(s, vals[i], tup.At(i).Type(), to)
				}
			}
		}
	}
	for i, l := range x.Lhs {
		if id, ok := l.(*ast.Ident); ok {
			if id.Name == "_" {
				continue
			}
			if x.Tok == token.DEFINE {
				if obj := v.info.Defs[id]; obj != nil {
					v.declareVar(s, obj, vals[i])
					continue
				}
			}
		}
		v.assign(s, l, vals[i])
	}
}

func (v *Verifier) execReturn(s *State, x *ast.ReturnStmt) []*Flow {
	var rets []*Term
	n := len(v.curResults())
	switch {
	case len(x.Results) == 0 && n > 0:
		for _, r := range v.curResults() {
			if _, ok := s.vars[r]; !ok {
				unsupported("bare return without named results")
			}
			if v.boxed[r] {
				rets = append(rets, v.loadPtr(s, s.vars[r], r.Type()))
			} else {
				rets = append(rets, s.vars[r])
			}
		}
	case len(x.Results) == n:
		for i, r := range x.Results {
			rets = append(rets, v.evalTo(s, r, v.curResults()[i].Type()))
		}
	case len(x.Results) == 1 && n > 1:
		rets = v.evalMulti(s, x.Results[0], n)
		if call, ok := ast.Unparen(x.Results[0]).(*ast.CallExpr); ok {
			if tup, ok := v.typeOf(call).(*types.Tuple); ok {
				for i := range rets {
					rets[i] = v.coerce(s, rets[i], tup.At(i).Type(), v.curResults()[i].Type())
				}
			}
		}
	}
	if s.dead {
		return nil
	}
	return []*Flow{{St: s, Kind: flowReturn, Ret: rets, Pos: x.Pos(), ErrRet: v.isErrorReturn(x)}}
}

func (v *Verifier) curResults() []*types.Var {
	if len(v.resStack) > 0 {
		return v.resStack[len(v.resStack)-1]
	}
	return v.results
}

func (v *Verifier) execIf(s *State, x *ast.IfStmt) []*Flow {
	if x.Init != nil {
		fl := v.execStmt(s, x.Init)
		if len(fl) != 1 || fl[0].Kind != flowNormal {
			unsupported("control flow in if-init")
		}
		s = fl[0].St
	}
	c := v.eval(s, x.Cond)
	if s.dead {
		return nil
	}
	c = s.knownCond(c)
	var out []*Flow
	if !c.isFalse() {
		s1 := s
		if !c.isTrue() {
			s1 = s.clone()
			s1.assumeBranch(c)
		}
		out = append(out, v.execBlock(s1, x.Body.List)...)
	}
	if !c.isTrue() {
		s2 := s
		s2.assumeBranch(Not(c))
		if x.Else != nil {
			out = append(out, v.execStmt(s2, x.Else)...)
		} else {
			out = append(out, normal(s2)...)
		}
	}
	return out
}

func (v *Verifier) execSwitch(s *State, x *ast.SwitchStmt) []*Flow {
	if x.Init != nil {
		fl := v.execStmt(s, x.Init)
		if len(fl) != 1 || fl[0].Kind != flowNormal {
			unsupported("control flow in switch-init")
		}
		s = fl[0].St
	}
	var tag *Term
	var tagT types.Type
	if x.Tag != nil {
		tag = v.eval(s, x.Tag)
		tagT = v.typeOf(x.Tag)
	}
	var out []*Flow
	var dflt *ast.CaseClause
	cur := s
	for _, cst := range x.Body.List {
		cc := cst.(*ast.CaseClause)
		if cc.List == nil {
			dflt = cc
			continue
		}
		var conds []*Term
		for _, e := range cc.List {
			if tag != nil {
				ev := v.eval(cur, e)
				conds = append(conds, v.equal(cur, tag, ev, tagT, v.typeOf(e), e.Pos()))
			} else {
				conds = append(conds, v.eval(cur, e))
			}
		}
		c := Or(conds...)
		if !c.isFalse() {
			s1 := cur.clone()
			s1.assumeBranch(c)
			out = append(out, v.switchBody(s1, cc)...)
		}
		cur.assumeBranch(Not(c))
		if cur.dead {
			break
		}
	}
	if !cur.dead {
		if dflt != nil {
			out = append(out, v.switchBody(cur, dflt)...)
		} else {
			out = append(out, normal(cur)...)
		}
	}
	return out
}

func (v *Verifier) switchBody(s *State, cc *ast.CaseClause) []*Flow {
	for _, st := range cc.Body {
		if b, ok := st.(*ast.BranchStmt); ok && b.Tok == token.FALLTHROUGH {
			unsupported("fallthrough")
		}
	}
	var out []*Flow
	for _, f := range v.execBlock(s, cc.Body) {
		if f.Kind == flowBreak && f.Label == "" {
			f.Kind = flowNormal
		}
		out = append(out, f)
	}
	return out
}

func (v *Verifier) execTypeSwitch(s *State, x *ast.TypeSwitchStmt) []*Flow {
	if x.Init != nil {
		fl := v.execStmt(s, x.Init)
		if len(fl) != 1 || fl[0].Kind != flowNormal {
			unsupported("control flow in switch-init")
		}
		s = fl[0].St
	}
	var subj ast.Expr
	switch a := x.Assign.(type) {
	case *ast.AssignStmt:
		subj = a.Rhs[0].(*ast.TypeAssertExpr).X
	case *ast.ExprStmt:
		subj = a.X.(*ast.TypeAssertExpr).X
	}
	iv := v.eval(s, subj)
	ivT := v.typeOf(subj)
	var out []*Flow
	var dflt *ast.CaseClause
	cur := s
	for _, cst := range x.Body.List {
		cc := cst.(*ast.CaseClause)
		if cc.List == nil {
			dflt = cc
			continue
		}
		var conds []*Term
		for _, e := range cc.List {
			if id, ok := e.(*ast.Ident); ok && id.Name == "nil" {
				conds = append(conds, Eq(IType(iv), IntLit(0)))
				continue
			}
			to := v.typeOf(e)
			if _, toI := to.Underlying().(*types.Interface); toI {
				v.d.declareFun("implements", []string{SInt, SInt}, SBool)
				conds = append(conds, And(Neq(IType(iv), IntLit(0)), mk("implements", SBool, IType(iv), IntLit(int64(v.d.typeID("iface:"+types.TypeString(to, nil)))))))
			} else {
				conds = append(conds, Eq(IType(iv), IntLit(int64(v.d.typeID(types.TypeString(to, nil))))))
			}
		}
		c := Or(conds...)
		s1 := cur.clone()
		s1.assumeBranch(c)
		if obj := v.info.Implicits[cc]; obj != nil {
			if len(cc.List) == 1 {
				if id, ok := cc.List[0].(*ast.Ident); ok && id.Name == "nil" {
					v.declareVar(s1, obj, iv)
				} else {
					v.declareVar(s1, obj, v.fromIface(s1, iv, obj.Type()))
				}
			} else {
				v.declareVar(s1, obj, iv)
			}
		}
		out = append(out, v.switchBody(s1, cc)...)
		cur.assumeBranch(Not(c))
	}
	if dflt != nil {
		if obj := v.info.Implicits[dflt]; obj != nil {
			v.declareVar(cur, obj, iv)
		}
		out = append(out, v.switchBody(cur, dflt)...)
	} else {
		out = append(out, normal(cur)...)
	}
	_ = ivT
	return out
}

// ---------------- loops ----------------

type loopSpec struct {
	ord     int
	invs    []*Clause
	dec     *Clause
	unroll  int
	unfolds []*Clause
	uses    []*Clause
	assumes []*Clause
}

func (v *Verifier) loopSpecFor(n ast.Node) *loopSpec {
	ord := v.loopOrd[n]
	ls := &loopSpec{ord: ord}
	if v.fc == nil {
		return ls
	}
	for _, c := range v.fc.Clauses {
		if c.Loop != ord {
			continue
		}
		switch c.Kind {
		case "invariant":
			ls.invs = append(ls.invs, c)
		case "decreases":
			ls.dec = c
		case "unroll":
			k, err := strconv.Atoi(c.Text)
			if err != nil {
				unsupported("bad unroll count %q", c.Text)
			}
			ls.unroll = k
		case "unfold":
			ls.unfolds = append(ls.unfolds, c)
		case "use":
			ls.uses = append(ls.uses, c)
		case "assume":
			ls.assumes = append(ls.assumes, c)
		}
	}
	if v.fc.Flags["unrollall"] && ls.unroll == 0 && len(ls.invs) == 0 {
		ls.unroll = 4096
	}
	return ls
}

// loopParts is the normalised form: cond may be nil (true).
type loopParts struct {
	node     ast.Node
	cond     func(s *State) *Term
	body     *ast.BlockStmt
	pre      func(s *State) // executed at the start of each iteration (range var binding)
	post     func(s *State) []*Flow
	label    string
	scope    *types.Scope
	extraMod []types.Object
	hidden   map[string]*types.Var
	sync     func(s *State)       // range loops: key variable := hidden index
	implicit func(s *State) *Term // range loops: 0 <= idx <= n always holds at the loop head
}

func (v *Verifier) execFor(s *State, x *ast.ForStmt, label string) []*Flow {
	if x.Init != nil {
		fl := v.execStmt(s, x.Init)
		if len(fl) != 1 || fl[0].Kind != flowNormal {
			unsupported("control flow in for-init")
		}
		s = fl[0].St
	}
	lp := &loopParts{node: x, body: x.Body, label: label, scope: v.info.Scopes[x.Body]}
	if x.Cond != nil {
		lp.cond = func(st *State) *Term { return v.eval(st, x.Cond) }
	}
	if x.Post != nil {
		lp.post = func(st *State) []*Flow { return v.execStmt(st, x.Post) }
	}
	return v.execLoop(s, lp, x)
}

func (v *Verifier) execRange(s *State, x *ast.RangeStmt, label string) []*Flow {
	xt := v.typeOf(x.X)
	// hidden index variable
	idxVar := types.NewVar(x.Pos(), v.pkg.Types, fmt.Sprintf("idx%d", v.loopOrd[x]), types.Typ[types.Int])
	var n *Term
	var elemAt func(st *State, i *Term) *Term
	var elemT types.Type
	switch u := xt.Underlying().(type) {
	case *types.Basic:
		if u.Info()&types.IsInteger == 0 {
			unsupported("range over %s", xt)
		}
		nv := v.eval(s, x.X)
		n = v.idxInt(nv, xt)
	case *types.Array:
		n = IntLit(u.Len())
		elemT = u.Elem()
		if x.Value != nil {
			arr := v.eval(s, x.X) // range evaluates a copy of the array
			elemAt = func(st *State, i *Term) *Term { return Select(arr, i) }
		}
	case *types.Pointer:
		at, ok := u.Elem().Underlying().(*types.Array)
		if !ok {
			unsupported("range over %s", xt)
		}
		p := v.eval(s, x.X)
		n = IntLit(at.Len())
		elemT = at.Elem()
		if x.Value != nil {
			v.nonNil(s, p, xt, x.Pos())
			elemAt = func(st *State, i *Term) *Term {
				_, h, _ := v.sliceHeap(st, at.Elem())
				return Select(v.hsel(st, h, p), i)
			}
		}
	case *types.Slice:
		sl := v.name(s, "rng", v.eval(s, x.X))
		n = SLen(sl)
		elemT = u.Elem()
		elemAt = func(st *State, i *Term) *Term { return v.readElem(st, sl, i, u.Elem()) }
	default:
		unsupported("range over %s", xt)
	}
	s.vars[idxVar] = IntLit(0)
	var keyObj, valObj *types.Var
	bind := func(e ast.Expr) *types.Var {
		if e == nil {
			return nil
		}
		id, ok := e.(*ast.Ident)
		if !ok {
			unsupported("range with non-identifier variable")
		}
		if id.Name == "_" {
			return nil
		}
		if x.Tok == token.DEFINE {
			o, _ := v.info.Defs[id].(*types.Var)
			return o
		}
		o, _ := v.info.Uses[id].(*types.Var)
		return o
	}
	keyObj = bind(x.Key)
	valObj = bind(x.Value)
	lp := &loopParts{node: x, body: x.Body, label: label, scope: v.info.Scopes[x.Body]}
	lp.hidden = map[string]*types.Var{"idx": idxVar, idxVar.Name(): idxVar}
	lp.extraMod = []types.Object{idxVar}
	if keyObj != nil {
		lp.extraMod = append(lp.extraMod, keyObj)
	}
	if valObj != nil {
		lp.extraMod = append(lp.extraMod, valObj)
	}
	lp.cond = func(st *State) *Term { return Lt(st.vars[idxVar], n) }
	lp.implicit = func(st *State) *Term { return And(Le(IntLit(0), st.vars[idxVar]), Le(st.vars[idxVar], n)) }
	lp.sync = func(st *State) {
		if keyObj != nil && !v.boxed[keyObj] {
			st.vars[keyObj] = v.goIntT(st.vars[idxVar], keyObj.Type())
		}
	}
	lp.pre = func(st *State) {
		i := st.vars[idxVar]
		if keyObj != nil {
			kt := keyObj.Type()
			st.vars[keyObj] = v.goIntT(i, kt)
		}
		if valObj != nil && elemAt != nil {
			val := elemAt(st, i)
			v.noteRead(st, val, elemT)
			if v.boxed[valObj] {
				v.declareVar(st, valObj, val)
			} else {
				st.vars[valObj] = val
			}
		}
	}
	lp.post = func(st *State) []*Flow {
		st.vars[idxVar] = Add(st.vars[idxVar], IntLit(1))
		return normal(st)
	}
	// the key variable exists (with an arbitrary value) before the first iteration for invariants
	if keyObj != nil {
		s.vars[keyObj] = v.goIntT(IntLit(0), keyObj.Type())
	}
	if valObj != nil && !v.boxed[valObj] {
		if _, ok := s.vars[valObj]; !ok {
			s.vars[valObj] = v.zeroOf(valObj.Type())
		}
	}
	return v.execLoop(s, lp, x)
}

func (v *Verifier) goIntT(i *Term, t types.Type) *Term {
	if v.mode == "bv" {
		w, _, _ := intInfo(t)
		if w == 0 {
			w = 64
		}
		return int2bv(w, i)
	}
	return i
}

func (v *Verifier) execLoop(s *State, lp *loopParts, node ast.Node) []*Flow {
	ls := v.loopSpecFor(node)
	if ls.unroll > 0 {
		return v.execUnrolled(s, lp, ls)
	}
	if len(ls.invs) == 0 && v.fc != nil && !v.sweep {
		// a loop without invariant: treated with invariant `true`
	}
	var out []*Flow
	env := v.localEnv(s, lp)
	if lp.sync != nil {
		lp.sync(s)
	}
	// 1. invariants hold on entry
	for k, c := range ls.invs {
		g := env.at(s, v.entry).trBool(c.Expr)
		v.oblige(s, "inv-init", fmt.Sprintf("loop%d.%d", ls.ord, k+1), g, node.Pos(), "loop invariant holds on entry: "+c.Text)
	}
	var dec0 *Term
	// 2. havoc modified state
	mods := v.loopMods(lp)
	h := s.clone()
	v.havocLoop(h, s, mods, lp)
	pre := h.clone() // state at loop head (arbitrary iteration)
	if lp.sync != nil {
		lp.sync(h)
	}
	if lp.implicit != nil {
		h.assume(lp.implicit(h))
	}
	for _, c := range ls.invs {
		h.assume(env.at(h, v.entry).withLoopPre(s).trBool(c.Expr))
	}
	for _, c := range ls.assumes {
		h.assume(env.at(h, v.entry).trBool(c.Expr))
		v.assumed["loop assume in "+v.fnName+": "+c.Text] = true
	}
	_ = pre
	// after-loop continuation
	exit := h.clone()
	var cond *Term
	if lp.cond != nil {
		cond = lp.cond(h)
		ce := lp.cond(exit)
		exit.assumeBranch(Not(ce))
		if !exit.dead {
			out = append(out, &Flow{St: exit, Kind: flowNormal})
		}
		h.assumeBranch(cond)
	}
	if h.dead {
		return out
	}
	for _, c := range ls.unfolds {
		v.applyUnfold(h, env.at(h, v.entry), c)
	}
	for _, c := range ls.uses {
		v.applyUse(h, env.at(h, v.entry), c, node.Pos())
	}
	if ls.dec != nil {
		dec0 = v.name(h, "dec", env.at(h, v.entry).tr(ls.dec.Expr).T)
	}
	if lp.pre != nil {
		lp.pre(h)
	}
	// 3. body preserves the invariant
	flows := v.execBlock(h, lp.body.List)
	for _, f := range flows {
		switch {
		case f.Kind == flowReturn:
			out = append(out, f)
		case f.Kind == flowBreak && (f.Label == "" || f.Label == lp.label):
			out = append(out, &Flow{St: f.St, Kind: flowNormal})
		case (f.Kind == flowContinue && (f.Label == "" || f.Label == lp.label)) || f.Kind == flowNormal:
			st := f.St
			if lp.post != nil {
				pf := lp.post(st)
				if len(pf) != 1 {
					unsupported("control flow in loop post statement")
				}
				st = pf[0].St
			}
			if lp.sync != nil {
				lp.sync(st)
			}
			for k, c := range ls.invs {
				g := env.at(st, v.entry).withLoopPre(s).trBool(c.Expr)
				v.oblige(st, "inv-step", fmt.Sprintf("loop%d.%d", ls.ord, k+1), g, node.Pos(), "loop invariant preserved: "+c.Text)
			}
			if ls.dec != nil {
				d1 := env.at(st, v.entry).tr(ls.dec.Expr).T
				d1i, d0i := d1, dec0
				if v.mode == "bv" {
					unsupported("decreases in bv mode")
				}
				v.oblige(st, "dec", fmt.Sprintf("loop%d", ls.ord), And(Lt(d1i, d0i), Ge(d0i, IntLit(0))), node.Pos(), "loop variant decreases and is bounded below")
			}
		default:
			out = append(out, f) // labelled break/continue of an outer loop
		}
	}
	return out
}

func (v *Verifier) execUnrolled(s *State, lp *loopParts, ls *loopSpec) []*Flow {
	var out []*Flow
	cur := []*State{s}
	for iter := 0; iter <= ls.unroll; iter++ {
		var next []*State
		for _, st := range cur {
			if st.dead {
				continue
			}
			var c *Term = TTrue
			if lp.cond != nil {
				c = lp.cond(st)
			}
			if !c.isTrue() {
				ex := st
				if !c.isFalse() {
					ex = st.clone()
				}
				ex.assumeBranch(Not(c))
				if !ex.dead {
					out = append(out, &Flow{St: ex, Kind: flowNormal})
				}
			}
			if c.isFalse() {
				continue
			}
			if iter == ls.unroll {
				// unwinding obligation: the guard must be false by now
				v.oblige(st, "unwind", fmt.Sprintf("loop%d", ls.ord), Not(c), lp.node.Pos(), fmt.Sprintf("loop finishes within %d iterations", ls.unroll))
				continue
			}
			st.assumeBranch(c)
			if lp.pre != nil {
				lp.pre(st)
			}
			for _, f := range v.execBlock(st, lp.body.List) {
				switch {
				case f.Kind == flowReturn:
					out = append(out, f)
				case f.Kind == flowBreak && (f.Label == "" || f.Label == lp.label):
					out = append(out, &Flow{St: f.St, Kind: flowNormal})
				case (f.Kind == flowContinue && (f.Label == "" || f.Label == lp.label)) || f.Kind == flowNormal:
					st2 := f.St
					if lp.post != nil {
						pf := lp.post(st2)
						if len(pf) != 1 {
							unsupported("control flow in loop post statement")
						}
						st2 = pf[0].St
					}
					next = append(next, st2)
				default:
					out = append(out, f)
				}
			}
		}
		cur = next
		if len(cur)+len(out) > v.pathCap {
			unsupported("path explosion while unrolling loop %d", ls.ord)
		}
		if len(cur) == 0 {
			break
		}
	}
	return out
}

// ---------------- loop modification analysis ----------------

type loopModSet struct {
	vars       map[*types.Var]bool
	heapAll    bool
	heapKind   map[string]bool       // heap names havocked entirely
	bases      map[string][]ast.Expr // heap name -> expressions whose base is written
	globals    bool
	mapObjs    []mapWrite
	fieldObjs  []fieldWrite
	allocHeaps map[string]string // heaps that receive freshly allocated objects in the body: name -> sort
	region     ast.Node          // the statements being analysed (loop body)
}

type fieldWrite struct {
	heap string
	obj  ast.Expr
	ft   types.Type
}

type mapWrite struct {
	tag string
	e   ast.Expr
}

func (v *Verifier) loopMods(lp *loopParts) *loopModSet {
	ms := &loopModSet{vars: map[*types.Var]bool{}, heapKind: map[string]bool{}, bases: map[string][]ast.Expr{}, region: lp.body}
	for _, o := range lp.extraMod {
		ms.vars[o.(*types.Var)] = true
	}
	var visit func(n ast.Node) bool
	markLhs := func(e ast.Expr) {
		v.markWrite(ms, e)
	}
	visit = func(n ast.Node) bool {
		switch x := n.(type) {
		case *ast.CompositeLit:
			v.markAlloc(ms, v.info.TypeOf(x))
		case *ast.AssignStmt:
			for _, l := range x.Lhs {
				markLhs(l)
			}
		case *ast.IncDecStmt:
			markLhs(x.X)
		case *ast.RangeStmt:
			if x.Key != nil {
				markLhs(x.Key)
			}
			if x.Value != nil {
				markLhs(x.Value)
			}
		case *ast.CallExpr:
			v.markCallWrites(ms, x)
		case *ast.DeclStmt:
			// declared inside: irrelevant outside, but harmless
		case *ast.FuncLit:
			return true
		}
		return true
	}
	ast.Inspect(lp.body, visit)
	if fs, ok := lp.node.(*ast.ForStmt); ok && fs.Post != nil {
		ast.Inspect(fs.Post, visit)
	}
	if fs, ok := lp.node.(*ast.ForStmt); ok && fs.Cond != nil {
		ast.Inspect(fs.Cond, visit)
	}
	return ms
}

func (v *Verifier) markWrite(ms *loopModSet, e ast.Expr) {
	switch x := ast.Unparen(e).(type) {
	case *ast.Ident:
		if o, ok := v.info.ObjectOf(x).(*types.Var); ok {
			ms.vars[o] = true
			if v.boxed[o] {
				v.markBoxedWrite(ms, o)
			}
			if o.Parent() == o.Pkg().Scope() {
				ms.globals = true
			}
		}
	case *ast.IndexExpr:
		xt := v.typeOf(x.X)
		switch u := xt.Underlying().(type) {
		case *types.Slice:
			name := v.sliceHeapNameT(u.Elem())
			ms.bases[name] = append(ms.bases[name], x.X)
		case *types.Array:
			v.markWrite(ms, x.X)
		case *types.Pointer:
			if at, ok := u.Elem().Underlying().(*types.Array); ok {
				name := v.sliceHeapNameT(at.Elem())
				ms.bases[name] = append(ms.bases[name], x.X)
			} else {
				ms.heapAll = true
			}
		case *types.Map:
			mt := u
			ks, vs := v.sortOf(mt.Key()), v.sortOf(mt.Elem())
			tag := sortTag(ks) + "_" + sortTag(vs)
			ms.mapObjs = append(ms.mapObjs, mapWrite{tag, x.X})
		default:
			ms.heapAll = true
		}
	case *ast.SelectorExpr:
		sel := v.info.Selections[x]
		if sel == nil || sel.Kind() != types.FieldVal {
			ms.globals = true
			return
		}
		// field of heap struct or of a local struct value
		recv := sel.Recv()
		if _, isPtr := recv.Underlying().(*types.Pointer); isPtr || len(sel.Index()) > 1 {
			st, _ := derefType(recv)
			// walk to the final struct type
			cur := st
			for k, fi := range sel.Index() {
				stt, ok := cur.Underlying().(*types.Struct)
				if !ok {
					ms.heapAll = true
					return
				}
				f := stt.Field(fi)
				if k == len(sel.Index())-1 {
					if at, isArr := f.Type().Underlying().(*types.Array); isArr {
						ms.heapKind[v.sliceHeapNameT(at.Elem())] = true
					} else if len(sel.Index()) == 1 {
						// field of the object a (possibly loop-invariant) pointer expression denotes
						ms.fieldObjs = append(ms.fieldObjs, fieldWrite{v.heapName("F", structTypeName(cur), f.Name()), x.X, f.Type()})
					} else {
						ms.heapKind[v.heapName("F", structTypeName(cur), f.Name())] = true
					}
				} else {
					cur, _ = derefType(f.Type())
				}
			}
			return
		}
		v.markWrite(ms, x.X)
	case *ast.StarExpr:
		pt, ok := v.typeOf(x.X).Underlying().(*types.Pointer)
		if !ok {
			ms.heapAll = true
			return
		}
		switch u := pt.Elem().Underlying().(type) {
		case *types.Array:
			name := v.sliceHeapNameT(u.Elem())
			ms.bases[name] = append(ms.bases[name], x.X)
		case *types.Struct:
			for i := 0; i < u.NumFields(); i++ {
				ms.heapKind[v.heapName("F", structTypeName(pt.Elem()), u.Field(i).Name())] = true
			}
		default:
			ms.heapKind["P_"+sortTag(v.sortOf(pt.Elem()))] = true
		}
	default:
		ms.heapAll = true
	}
}

func (v *Verifier) markBoxedWrite(ms *loopModSet, o *types.Var) {
	switch u := o.Type().Underlying().(type) {
	case *types.Array:
		ms.heapKind[v.sliceHeapNameT(u.Elem())+"#box:"+o.Name()] = true
		name := v.sliceHeapNameT(u.Elem())
		ms.bases[name] = append(ms.bases[name], &ast.Ident{Name: "#box", Obj: nil, NamePos: token.Pos(0)})
		ms.boxedObjs(name, o)
	case *types.Struct:
		for i := 0; i < u.NumFields(); i++ {
			ms.heapKind[v.heapName("F", structTypeName(o.Type()), u.Field(i).Name())] = true
		}
	default:
		ms.heapKind["P_"+sortTag(v.sortOf(o.Type()))] = true
	}
}

var boxedWrites = map[*loopModSet]map[string][]*types.Var{}

func (ms *loopModSet) boxedObjs(name string, o *types.Var) {
	if boxedWrites[ms] == nil {
		boxedWrites[ms] = map[string][]*types.Var{}
	}
	boxedWrites[ms][name] = append(boxedWrites[ms][name], o)
}

// havocLoop replaces everything the loop body may modify by fresh symbols.
func (v *Verifier) havocLoop(h *State, before *State, ms *loopModSet, lp *loopParts) {
	// an arbitrary iteration starts with an arbitrary (not smaller) allocator
	// Heaps are NOT havocked for the objects allocated in earlier iterations: their
	// references lie in [alloc before the loop, alloc at the head), where the pre-loop
	// heap term is unconstrained (all heap axioms are guarded by `existed`), so it
	// already stands for arbitrary contents; the invariant says what is known there.
	v.bumpAlloc(h)
	for o := range ms.vars {
		if v.boxed[o] {
			continue
		}
		if _, ok := h.vars[o]; !ok {
			continue
		}
		h.vars[o] = v.symbolic(h, o.Name(), o.Type())
	}
	if ms.heapAll {
		v.havocAll(h)
		return
	}
	if ms.globals {
		for name := range h.heaps {
			if len(name) > 2 && name[:2] == "G_" {
				h.heaps[name] = v.fresh(name, h.heaps[name].Sort)
			}
		}
	}
	for _, fw := range ms.fieldObjs {
		if ms.heapKind[fw.heap] {
			continue
		}
		ref, ok := v.stableValue(before, fw.obj, ms)
		cur, okh := h.heaps[fw.heap]
		if !ok || !okh {
			ms.heapKind[fw.heap] = true
			continue
		}
		_, vs, _ := arrSorts(cur.Sort)
		nv := v.fresh("fld", vs)
		h.assume(v.typeFacts(h, nv, fw.ft))
		h.heaps[fw.heap] = Store(cur, ref, nv)
	}
	for _, mw := range ms.mapObjs {
		hn, vn := "Mh_"+mw.tag, "Mv_"+mw.tag
		if ms.heapKind[hn] {
			continue
		}
		ref, ok := v.stableValue(before, mw.e, ms)
		hh, okh := h.heaps[hn]
		hv, okv := h.heaps[vn]
		if !ok || !okh || !okv {
			ms.heapKind[hn], ms.heapKind[vn] = true, true
			continue
		}
		_, inh, _ := arrSorts(hh.Sort)
		_, inv, _ := arrSorts(hv.Sort)
		h.heaps[hn] = Store(hh, ref, v.fresh("mh", inh))
		h.heaps[vn] = Store(hv, ref, v.fresh("mv", inv))
	}
	for name := range ms.heapKind {
		if i := indexByte(name, '#'); i >= 0 {
			continue
		}
		if cur, ok := h.heaps[name]; ok {
			h.heaps[name] = v.fresh(name, cur.Sort)
			v.heapRefFacts(h, name, h.heaps[name])
		}
	}
	for name, exprs := range ms.bases {
		if ms.heapKind[name] {
			continue
		}
		cur, ok := h.heaps[name]
		if !ok {
			// heap not yet materialised: create the entry version first
			_, es, _ := arrSorts(v.sliceHeapSortByName(name))
			_ = es
			cur = v.getHeap(h, name, v.sliceHeapSortByName(name))
		}
		_, inner, _ := arrSorts(cur.Sort)
		var bases []*Term
		okAll := true
		for _, e := range exprs {
			if id, isId := e.(*ast.Ident); isId && id.Name == "#box" {
				continue
			}
			if v.isLoopLocalFresh(before, e) {
				continue // memory allocated inside the iteration: not visible at the loop head
			}
			b, ok := v.stableBase(before, e, ms)
			if !ok {
				okAll = false
				break
			}
			bases = append(bases, b)
		}
		for _, o := range boxedWrites[ms][name] {
			if ref, ok := before.vars[o]; ok {
				bases = append(bases, ref)
			}
		}
		if !okAll {
			h.heaps[name] = v.fresh(name, cur.Sort)
			v.heapRefFacts(h, name, h.heaps[name])
			continue
		}
		nh := cur
		seen := map[string]bool{}
		for _, b := range bases {
			if seen[b.String()] {
				continue
			}
			seen[b.String()] = true
			na := v.fresh("arr", inner)
			nh = Store(nh, b, na)
		}
		h.heaps[name] = nh
	}
	delete(boxedWrites, ms)
}

func indexByte(s string, c byte) int {
	for i := 0; i < len(s); i++ {
		if s[i] == c {
			return i
		}
	}
	return -1
}

func (v *Verifier) sliceHeapSortByName(name string) string {
	if srt, ok := v.heapSorts[name]; ok {
		return srt
	}
	switch strings.TrimPrefix(name, "H_") {
	case "uint8", "byte", "uint16", "uint32", "uint64", "int", "int8", "int16", "int32", "int64", "uint":
		if v.mode != "bv" {
			return SArr(SInt, SArr(SInt, SInt))
		}
	}
	unsupported("unknown heap %s", name)
	return ""
}

// stableBase evaluates the base written through expression e if that base is
// the same in every iteration (variable only re-sliced inside the loop).
func (v *Verifier) stableBase(before *State, e ast.Expr, ms *loopModSet) (*Term, bool) {
	switch x := ast.Unparen(e).(type) {
	case *ast.Ident:
		o, ok := v.info.ObjectOf(x).(*types.Var)
		if !ok {
			return nil, false
		}
		if v.boxed[o] {
			if _, isArr := o.Type().Underlying().(*types.Array); isArr {
				ref, ok := before.vars[o]
				return ref, ok
			}
			return nil, false
		}
		// a variable that only ever holds sub-slices of another one shares its base
		for depth := 0; depth < 4; depth++ {
			r, has := v.sliceRoot[o]
			if !has {
				break
			}
			if _, known := before.vars[o]; known && !ms.vars[o] {
				break
			}
			o = r
		}
		val, ok := before.vars[o]
		if !ok {
			return nil, false
		}
		if ms.vars[o] && !v.onlyResliced(o, ms) {
			return nil, false
		}
		if _, isSl := o.Type().Underlying().(*types.Slice); isSl {
			return SBase(val), true
		}
		if _, isPtr := o.Type().Underlying().(*types.Pointer); isPtr {
			if ms.vars[o] {
				return nil, false
			}
			return val, true
		}
	case *ast.SliceExpr:
		return v.stableBase(before, x.X, ms)
	case *ast.SelectorExpr:
		// field array of a heap struct through a loop-invariant pointer
		if id, ok := ast.Unparen(x.X).(*ast.Ident); ok {
			if o, ok := v.info.ObjectOf(id).(*types.Var); ok && !ms.vars[o] {
				if sel := v.info.Selections[x]; sel != nil && sel.Kind() == types.FieldVal && len(sel.Index()) == 1 {
					if _, isPtr := o.Type().Underlying().(*types.Pointer); isPtr {
						if val, ok := before.vars[o]; ok {
							st, _ := derefType(o.Type())
							ft := st.Underlying().(*types.Struct).Field(sel.Index()[0]).Type()
							if _, isArr := ft.Underlying().(*types.Array); isArr {
								return fieldBase(val, sel.Index()[0]), true
							}
						}
					}
				}
			}
		}
	}
	return nil, false
}

// onlyResliced: every assignment to o inside the current loop has the form o = o[a:b].
func (v *Verifier) onlyResliced(o *types.Var, ms *loopModSet) bool {
	return v.reslicedOnly[o]
}

// heapRefFacts: values stored in a fresh heap are valid references.
func (v *Verifier) heapRefFacts(s *State, name string, h *Term) {
	// references loaded later get their facts through noteRead
}

func (v *Verifier) havocAll(s *State) {
	v.nfresh++
	s.epoch = v.nfresh
	for name, cur := range s.heaps {
		s.heaps[name] = v.fresh(name, cur.Sort)
	}
	for name := range s.ghost {
		s.ghost[name] = v.fresh("ghost."+name, SInt)
	}
	v.bumpAlloc(s)
}

// stableValue evaluates e at loop entry if its value cannot change inside the
// loop: identifiers not assigned in the loop, and fields (through such
// identifiers) whose field heap the loop does not write.
func (v *Verifier) stableValue(before *State, e ast.Expr, ms *loopModSet) (*Term, bool) {
	var stable func(e ast.Expr) bool
	stable = func(e ast.Expr) bool {
		switch x := ast.Unparen(e).(type) {
		case *ast.Ident:
			o, ok := v.info.ObjectOf(x).(*types.Var)
			return ok && !ms.vars[o] && !v.boxed[o]
		case *ast.SelectorExpr:
			sel := v.info.Selections[x]
			if sel == nil || sel.Kind() != types.FieldVal || len(sel.Index()) != 1 || ms.heapAll {
				return false
			}
			st, _ := derefType(sel.Recv())
			if ms.heapKind[v.heapName("F", structTypeName(st), x.Sel.Name)] {
				return false
			}
			return stable(x.X)
		}
		return false
	}
	if !stable(e) {
		return nil, false
	}
	tmp := before.clone()
	save := v.obligeHook
	v.obligeHook = func(*State, *Term) {}
	val := v.eval(tmp, e)
	v.obligeHook = save
	return val, true
}

// ghostAsserts: `assert before|after "stmt text" expr` clauses are proof cuts:
// the expression is an obligation at that program point and is assumed afterwards.
func (v *Verifier) ghostAsserts(s *State, st ast.Stmt, where string) {
	if v.fc == nil || s.dead {
		return
	}
	var src string
	for k, c := range v.fc.Clauses {
		if (c.Kind != "assert" && c.Kind != "unfold" && c.Kind != "use") || c.Where != where {
			continue
		}
		if src == "" {
			src = v.stmtText(st)
		}
		if !strings.HasPrefix(src, c.Marker) {
			continue
		}
		c.hit = true
		env := v.newEnv(v.pkg.Types)
		env.scope = v.pkg.Types.Scope().Innermost(st.Pos())
		if where == "after" {
			env.scope = v.pkg.Types.Scope().Innermost(st.End() - 1)
			if sc := v.pkg.Types.Scope().Innermost(st.Pos()); sc != nil {
				env.scope = sc
			}
		}
		if c.Kind == "unfold" {
			v.applyUnfold(s, env.at(s, v.entry), c)
			continue
		}
		if c.Kind == "use" {
			v.applyUse(s, env.at(s, v.entry), c, st.Pos())
			continue
		}
		g := env.at(s, v.entry).trBool(c.Expr)
		v.oblige(s, "assert", fmt.Sprintf("%d", k+1), g, st.Pos(), "ghost assertion "+where+" `"+c.Marker+"`: "+c.Expr.String())
		s.assume(g)
	}
}

func (v *Verifier) stmtText(st ast.Stmt) string {
	p1, p2 := v.eng.fset.Position(st.Pos()), v.eng.fset.Position(st.End())
	if !p1.IsValid() || !p2.IsValid() {
		return ""
	}
	b := v.eng.fileBytes(p1.Filename)
	if b == nil || p2.Offset > len(b) || p1.Offset > p2.Offset {
		return ""
	}
	return strings.TrimSpace(string(b[p1.Offset:p2.Offset]))
}

// markAlloc records the heaps that an allocation of a value of type t writes.
func (v *Verifier) markAlloc(ms *loopModSet, t types.Type) {
	if t == nil {
		return
	}
	if ms.allocHeaps == nil {
		ms.allocHeaps = map[string]string{}
	}
	switch u := t.Underlying().(type) {
	case *types.Struct:
		for i := 0; i < u.NumFields(); i++ {
			ft := u.Field(i).Type()
			if at, isArr := ft.Underlying().(*types.Array); isArr {
				es := v.sortOf(at.Elem())
				ms.allocHeaps[v.sliceHeapNameT(at.Elem())] = v.sliceHeapSort(es)
			} else {
				ms.allocHeaps[v.heapName("F", structTypeName(t), u.Field(i).Name())] = SArr(SInt, v.sortOf(ft))
			}
		}
	case *types.Slice:
		es := v.sortOf(u.Elem())
		ms.allocHeaps[v.sliceHeapNameT(u.Elem())] = v.sliceHeapSort(es)
	case *types.Array:
		es := v.sortOf(u.Elem())
		ms.allocHeaps[v.sliceHeapNameT(u.Elem())] = v.sliceHeapSort(es)
	case *types.Pointer:
		v.markAlloc(ms, u.Elem())
	case *types.Map:
		ks, vs := v.sortOf(u.Key()), v.sortOf(u.Elem())
		tag := sortTag(ks) + "_" + sortTag(vs)
		ms.allocHeaps["Mh_"+tag] = SArr(SInt, SArr(ks, SBool))
		ms.allocHeaps["Mv_"+tag] = SArr(SInt, SArr(ks, vs))
	default:
		es := v.sortOf(t)
		ms.allocHeaps["P_"+sortTag(es)] = SArr(SInt, es)
	}
}

// havocAllocHeaps: heaps that receive objects allocated inside the loop are
// arbitrary at the loop head for every reference that did not exist before the loop.
func (v *Verifier) havocAllocHeaps(h *State, ms *loopModSet, allocPre *Term) {
	if ms.heapAll {
		return
	}
	for _, name := range sortedKeys(ms.allocHeaps) {
		if ms.heapKind[name] {
			continue
		}
		cur := v.getHeap(h, name, ms.allocHeaps[name])
		nh := v.fresh(name, cur.Sort)
		r := v.fresh("r", SInt)
		_, vs, _ := arrSorts(cur.Sort)
		h.assume(Forall([]*Term{r}, Implies(existed(r, allocPre), Eq(Select(nh, r), Select(cur, r))), mk("select", vs, nh, r)))
		h.heaps[name] = nh
	}
}

// isLoopLocalFresh: e is (a slice of) a variable declared inside the loop that only ever
// holds memory it allocated itself.
func (v *Verifier) isLoopLocalFresh(before *State, e ast.Expr) bool {
	for {
		switch x := ast.Unparen(e).(type) {
		case *ast.SliceExpr:
			e = x.X
			continue
		case *ast.Ident:
			o, ok := v.info.ObjectOf(x).(*types.Var)
			if !ok {
				return false
			}
			for depth := 0; depth < 4; depth++ {
				if r, has := v.sliceRoot[o]; has {
					o = r
				} else {
					break
				}
			}
			_, existedBefore := before.vars[o]
			return v.freshLocal[o] && !existedBefore
		}
		return false
	}
}

// isErrorReturn: the statement returns an error value that is not the literal nil
// (an identifier such as err, or a call to fmt.Errorf / errors.New).
func (v *Verifier) isErrorReturn(x *ast.ReturnStmt) bool {
	if v.declaredDead(x) {
		return true // exempt from the dead-return guard by a `deadreturn` clause
	}
	rs := v.curResults()
	if len(rs) == 0 {
		return true // early exit of a function without results
	}
	if len(x.Results) != len(rs) {
		return false
	}
	last := rs[len(rs)-1]
	if types.TypeString(last.Type(), nil) != "error" {
		return false
	}
	switch e := ast.Unparen(x.Results[len(x.Results)-1]).(type) {
	case *ast.Ident:
		return e.Name != "nil"
	case *ast.CallExpr:
		if se, ok := e.Fun.(*ast.SelectorExpr); ok {
			if id, ok := se.X.(*ast.Ident); ok && (id.Name == "fmt" && se.Sel.Name == "Errorf" || id.Name == "errors" && se.Sel.Name == "New") {
				return true
			}
		}
	}
	return false
}

// declaredDead: the contract has `deadreturn "return text" [k]` naming this return statement
// (the k-th one, default 1, whose source text starts with the given text): the contract
// states that the statement is unreachable under its assumptions (e.g. a redundant second
// pass), so its infeasibility is not taken as a sign of a vacuous proof.
func (v *Verifier) declaredDead(x *ast.ReturnStmt) bool {
	if v.fc == nil || v.body == nil {
		return false
	}
	for _, c := range v.fc.Clauses {
		if c.Kind != "deadreturn" {
			continue
		}
		txt := strings.TrimSpace(c.Text)
		occ := 1
		if i := strings.LastIndex(txt, "\""); i > 0 && i < len(txt)-1 {
			fmt.Sscanf(strings.TrimSpace(txt[i+1:]), "%d", &occ)
			txt = txt[:i+1]
		}
		marker, err := strconv.Unquote(txt)
		if err != nil {
			continue
		}
		n := 0
		found := false
		ast.Inspect(v.body, func(nd ast.Node) bool {
			r, ok := nd.(*ast.ReturnStmt)
			if !ok || found {
				return true
			}
			if strings.HasPrefix(v.stmtText(r), marker) {
				n++
				if n == occ && r == x {
					found = true
				}
			}
			return true
		})
		if found {
			c.hit = true
			return true
		}
	}
	return false
}
