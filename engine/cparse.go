package main

// Parser for the contract language: `//@` blocks in zz_verif_contracts.go
// files of /repo packages and the spec files under /verif/specs.

import (
	"fmt"
	"go/types"
	"math/big"
	"os"
	"strconv"
	"strings"
	"unicode"
)

// ---------------- expressions ----------------

type CVar struct {
	Name string
	Type *CType
}

type CType struct {
	Kind string // "name", "array", "slice", "ptr"
	Name string // possibly qualified "pkg.T"
	Len  *CExpr
	Elem *CType
	Key  *CType // map key type
}

func (t *CType) String() string {
	switch t.Kind {
	case "map":
		return "map[" + t.Key.String() + "]" + t.Elem.String()
	case "array":
		return "[" + t.Len.String() + "]" + t.Elem.String()
	case "slice":
		return "[]" + t.Elem.String()
	case "ptr":
		return "*" + t.Elem.String()
	}
	return t.Name
}

type CExpr struct {
	Kind    string // ident num str bin un call index slice sel forall exists old cond conv
	Op      string
	Name    string
	Val     *big.Int
	X, Y, Z *CExpr
	Args    []*CExpr
	Vars    []CVar
	Type    *CType // conv target for composite types
	Pos     string
}

func (e *CExpr) String() string {
	if e == nil {
		return ""
	}
	switch e.Kind {
	case "ident":
		return e.Name
	case "num":
		return e.Val.String()
	case "str":
		return strconv.Quote(e.Name)
	case "bin":
		return "(" + e.X.String() + " " + e.Op + " " + e.Y.String() + ")"
	case "un":
		return e.Op + e.X.String()
	case "call":
		var as []string
		for _, a := range e.Args {
			as = append(as, a.String())
		}
		return e.X.String() + "(" + strings.Join(as, ", ") + ")"
	case "conv":
		return e.Type.String() + "(" + e.X.String() + ")"
	case "index":
		return e.X.String() + "[" + e.Y.String() + "]"
	case "slice":
		return e.X.String() + "[" + e.Y.String() + ":" + e.Z.String() + "]"
	case "sel":
		return e.X.String() + "." + e.Name
	case "old":
		return "old(" + e.X.String() + ")"
	case "cond":
		return "(" + e.X.String() + " ? " + e.Y.String() + " : " + e.Z.String() + ")"
	case "forall", "exists":
		var vs []string
		for _, v := range e.Vars {
			vs = append(vs, v.Name+" "+v.Type.String())
		}
		return "(" + e.Kind + " " + strings.Join(vs, ", ") + " :: " + e.X.String() + ")"
	}
	return "?" + e.Kind
}

type tok struct {
	kind string // id num str op eof
	s    string
}

func lexExpr(src string) ([]tok, error) {
	var out []tok
	i := 0
	ops := []string{"<==>", "==>", "&&", "||", "==", "!=", "<=", ">=", "<<", ">>", "&^", "::", "+", "-", "*", "/", "%", "&", "|", "^", "!", "<", ">", "(", ")", "[", "]", ",", ".", ":", "?", "{", "}", "="}
	for i < len(src) {
		c := src[i]
		if c == ' ' || c == '\t' || c == '\n' {
			i++
			continue
		}
		if c == '/' && i+1 < len(src) && src[i+1] == '/' { // trailing comment
			break
		}
		if unicode.IsLetter(rune(c)) || c == '_' {
			j := i
			for j < len(src) && (unicode.IsLetter(rune(src[j])) || unicode.IsDigit(rune(src[j])) || src[j] == '_') {
				j++
			}
			out = append(out, tok{"id", src[i:j]})
			i = j
			continue
		}
		if unicode.IsDigit(rune(c)) {
			j := i
			for j < len(src) && (unicode.IsLetter(rune(src[j])) || unicode.IsDigit(rune(src[j])) || src[j] == '_') {
				j++
			}
			out = append(out, tok{"num", src[i:j]})
			i = j
			continue
		}
		if c == '"' {
			j := i + 1
			for j < len(src) && src[j] != '"' {
				if src[j] == '\\' {
					j++
				}
				j++
			}
			if j >= len(src) {
				return nil, fmt.Errorf("unterminated string in %q", src)
			}
			s, err := strconv.Unquote(src[i : j+1])
			if err != nil {
				return nil, err
			}
			out = append(out, tok{"str", s})
			i = j + 1
			continue
		}
		if c == '\'' {
			j := i + 1
			for j < len(src) && src[j] != '\'' {
				if src[j] == '\\' {
					j++
				}
				j++
			}
			r, _, _, err := strconv.UnquoteChar(src[i+1:j], '\'')
			if err != nil {
				return nil, err
			}
			out = append(out, tok{"num", strconv.Itoa(int(r))})
			i = j + 1
			continue
		}
		matched := false
		for _, op := range ops {
			if strings.HasPrefix(src[i:], op) {
				out = append(out, tok{"op", op})
				i += len(op)
				matched = true
				break
			}
		}
		if !matched {
			return nil, fmt.Errorf("unexpected character %q in %q", c, src)
		}
	}
	out = append(out, tok{"eof", ""})
	return out, nil
}

type eparser struct {
	toks []tok
	p    int
	src  string
}

func (p *eparser) peek() tok { return p.toks[p.p] }
func (p *eparser) next() tok { t := p.toks[p.p]; p.p++; return t }
func (p *eparser) isOp(s string) bool {
	t := p.peek()
	return t.kind == "op" && t.s == s
}
func (p *eparser) accept(s string) bool {
	if p.isOp(s) {
		p.p++
		return true
	}
	return false
}
func (p *eparser) expect(s string) {
	if !p.accept(s) {
		panic(fmt.Errorf("expected %q at token %d (%q) in %q", s, p.p, p.peek().s, p.src))
	}
}

func ParseCExpr(src string) (e *CExpr, err error) {
	toks, err := lexExpr(src)
	if err != nil {
		return nil, err
	}
	p := &eparser{toks: toks, src: src}
	defer func() {
		if r := recover(); r != nil {
			if er, ok := r.(error); ok {
				err = er
				return
			}
			panic(r)
		}
	}()
	e = p.expr()
	if p.peek().kind != "eof" {
		return nil, fmt.Errorf("trailing tokens at %q in %q", p.peek().s, src)
	}
	return e, nil
}

func (p *eparser) expr() *CExpr {
	t := p.peek()
	if t.kind == "id" && (t.s == "forall" || t.s == "exists") {
		p.next()
		vars := p.qvars()
		p.expect("::")
		body := p.expr()
		return &CExpr{Kind: t.s, Vars: vars, X: body}
	}
	c := p.impl()
	if p.accept("?") {
		a := p.expr()
		p.expect(":")
		b := p.expr()
		return &CExpr{Kind: "cond", X: c, Y: a, Z: b}
	}
	return c
}

func (p *eparser) qvars() []CVar {
	var out []CVar
	for {
		var names []string
		for {
			t := p.next()
			if t.kind != "id" {
				panic(fmt.Errorf("quantifier: expected name in %q", p.src))
			}
			names = append(names, t.s)
			if !p.accept(",") {
				break
			}
		}
		ty := p.ctype()
		for _, n := range names {
			out = append(out, CVar{n, ty})
		}
		if !p.accept(",") {
			break
		}
	}
	return out
}

func (p *eparser) ctype() *CType {
	if p.accept("*") {
		return &CType{Kind: "ptr", Elem: p.ctype()}
	}
	if p.accept("[") {
		if p.accept("]") {
			return &CType{Kind: "slice", Elem: p.ctype()}
		}
		n := p.expr()
		p.expect("]")
		return &CType{Kind: "array", Len: n, Elem: p.ctype()}
	}
	t := p.next()
	if t.kind != "id" {
		panic(fmt.Errorf("type expected at %q in %q", t.s, p.src))
	}
	if t.s == "map" && p.isOp("[") {
		p.next()
		k := p.ctype()
		p.expect("]")
		return &CType{Kind: "map", Key: k, Elem: p.ctype()}
	}
	name := t.s
	if p.isOp(".") && p.toks[p.p+1].kind == "id" {
		p.next()
		name += "." + p.next().s
	}
	return &CType{Kind: "name", Name: name}
}

func (p *eparser) impl() *CExpr {
	l := p.iff()
	if p.accept("==>") {
		// the right side of an implication may be a quantifier
		var r *CExpr
		if t := p.peek(); t.kind == "id" && (t.s == "forall" || t.s == "exists") {
			r = p.expr()
		} else {
			r = p.impl()
		}
		return &CExpr{Kind: "bin", Op: "==>", X: l, Y: r}
	}
	return l
}
func (p *eparser) iff() *CExpr {
	l := p.or()
	if p.accept("<==>") {
		r := p.or()
		return &CExpr{Kind: "bin", Op: "<==>", X: l, Y: r}
	}
	return l
}
func (p *eparser) or() *CExpr {
	l := p.and()
	for p.accept("||") {
		l = &CExpr{Kind: "bin", Op: "||", X: l, Y: p.and()}
	}
	return l
}
func (p *eparser) and() *CExpr {
	l := p.cmp()
	for p.accept("&&") {
		var r *CExpr
		if t := p.peek(); t.kind == "id" && (t.s == "forall" || t.s == "exists") {
			r = p.expr()
		} else {
			r = p.cmp()
		}
		l = &CExpr{Kind: "bin", Op: "&&", X: l, Y: r}
	}
	return l
}
func (p *eparser) cmp() *CExpr {
	l := p.add()
	for _, op := range []string{"==", "!=", "<=", ">=", "<", ">"} {
		if p.accept(op) {
			return &CExpr{Kind: "bin", Op: op, X: l, Y: p.add()}
		}
	}
	return l
}
func (p *eparser) add() *CExpr {
	l := p.mul()
	for {
		found := false
		for _, op := range []string{"+", "-", "|", "^"} {
			if p.accept(op) {
				l = &CExpr{Kind: "bin", Op: op, X: l, Y: p.mul()}
				found = true
				break
			}
		}
		if !found {
			return l
		}
	}
}
func (p *eparser) mul() *CExpr {
	l := p.unary()
	for {
		found := false
		for _, op := range []string{"*", "/", "%", "<<", ">>", "&^", "&"} {
			if p.accept(op) {
				l = &CExpr{Kind: "bin", Op: op, X: l, Y: p.unary()}
				found = true
				break
			}
		}
		if !found {
			return l
		}
	}
}
func (p *eparser) unary() *CExpr {
	for _, op := range []string{"!", "-", "^", "*", "&"} {
		if p.accept(op) {
			return &CExpr{Kind: "un", Op: op, X: p.unary()}
		}
	}
	return p.postfix()
}

func (p *eparser) postfix() *CExpr {
	e := p.primary()
	for {
		switch {
		case p.accept("."):
			t := p.next()
			if t.kind != "id" {
				panic(fmt.Errorf("selector expected in %q", p.src))
			}
			e = &CExpr{Kind: "sel", X: e, Name: t.s}
		case p.accept("["):
			var lo, hi *CExpr
			if !p.isOp(":") {
				lo = p.expr()
			}
			if p.accept(":") {
				if !p.isOp("]") {
					hi = p.expr()
				}
				p.expect("]")
				e = &CExpr{Kind: "slice", X: e, Y: lo, Z: hi}
			} else {
				p.expect("]")
				e = &CExpr{Kind: "index", X: e, Y: lo}
			}
		case p.accept("("):
			var args []*CExpr
			for !p.isOp(")") {
				args = append(args, p.expr())
				if !p.accept(",") {
					break
				}
			}
			p.expect(")")
			if e.Kind == "ident" && e.Name == "old" && len(args) == 1 {
				e = &CExpr{Kind: "old", X: args[0]}
			} else {
				e = &CExpr{Kind: "call", X: e, Args: args}
			}
		default:
			return e
		}
	}
}

func (p *eparser) primary() *CExpr {
	t := p.peek()
	switch {
	case t.kind == "num":
		p.next()
		s := strings.ReplaceAll(t.s, "_", "")
		v, ok := new(big.Int).SetString(s, 0)
		if !ok {
			panic(fmt.Errorf("bad number %q", t.s))
		}
		return &CExpr{Kind: "num", Val: v}
	case t.kind == "str":
		p.next()
		return &CExpr{Kind: "str", Name: t.s}
	case t.kind == "id" && (t.s == "forall" || t.s == "exists"):
		return p.expr()
	case t.kind == "id":
		p.next()
		return &CExpr{Kind: "ident", Name: t.s}
	case p.isOp("("):
		p.next()
		e := p.expr()
		p.expect(")")
		return e
	case p.isOp("["): // conversion to composite type: []byte(x), [16]byte(x)
		ty := p.ctype()
		p.expect("(")
		x := p.expr()
		p.expect(")")
		return &CExpr{Kind: "conv", Type: ty, X: x}
	}
	panic(fmt.Errorf("unexpected token %q in %q", t.s, p.src))
}

// ---------------- contract blocks ----------------

type Clause struct {
	Kind          string // requires ensures invariant decreases unroll assigns use unfold assume modifies
	Loop          int    // for loop clauses (1-based ordinal), 0 otherwise
	Props         []string
	Text          string
	Expr          *CExpr
	Args          []*CExpr // for use/unfold/assigns lists
	Line          string
	Where, Marker string // assert before|after "statement text"
	hit           bool
}

type FuncContract struct {
	Header   string
	RecvName string
	RecvType string // type name without * ; "" for functions
	RecvPtr  bool
	Name     string
	PkgPath  string // set for stdlib contracts ("crypto/subtle"), else package of file
	Params   []CVar // names as written in the contract header
	Results  []CVar
	Props    []string
	Mode     string // int | bv
	Clauses  []*Clause
	Flags    map[string]bool // pure trusted inline wrap nooverflow lemma
	File     string
	IsLit    int // function literal ordinal within the function (0 = none)
}

func (fc *FuncContract) Key() string {
	k := fc.Name
	if fc.RecvType != "" {
		k = fc.RecvType + "." + fc.Name
	}
	if fc.IsLit > 0 {
		k += fmt.Sprintf("$lit%d", fc.IsLit)
	}
	return k
}

func (fc *FuncContract) clauses(kind string) []*Clause {
	var out []*Clause
	for _, c := range fc.Clauses {
		if c.Kind == kind {
			out = append(out, c)
		}
	}
	return out
}

type SpecFunc struct {
	Name    string
	Params  []CVar
	Result  *CType
	Body    *CExpr // nil => uninterpreted (opaque)
	Rec     bool
	Opaque  bool // defined but only unfolded on request
	File    string
	Trusted bool
	PkgPath string
	Pkg     *types.Package
}

type Axiom struct {
	Name string
	Vars []CVar
	Expr *CExpr
	File string
}

type Lemma struct {
	Name     string
	Params   []CVar
	Requires []*CExpr
	Ensures  []*CExpr
	Uses     []*CExpr
	Unfolds  []*CExpr
	Induct   string // induction variable (nat) or ""
	Mode     string
	Props    []string
	File     string
	PkgPath  string
}

type ContractFile struct {
	Path        string
	Funcs       []*FuncContract
	Specs       []*SpecFunc
	Axioms      []*Axiom
	Lemmas      []*Lemma
	Preds       []*SpecFunc
	GhostVars   []string
	GhostFields []*SpecFunc
}

var clauseKeywords = map[string]bool{
	"props": true, "mode": true, "requires": true, "ensures": true, "loop": true, "assigns": true,
	"pure": true, "trusted": true, "assumed": true, "inline": true, "use": true, "unfold": true, "wrap": true,
	"func": true, "spec": true, "axiom": true, "lemma": true, "assume": true, "lit": true, "panics": true,
	"induction": true, "fresh": true, "havoc": true, "ghost": true, "pred": true, "noframe": true,
	"reads": true, "defines": true, "assert": true, "cases": true, "ghostvar": true, "ghostfield": true, "nooverflow": true, "unrollall": true, "pathcap": true, "opaque": true, "mayalias": true, "deadreturn": true,
}

// parseContractText parses the `//@`-prefixed lines (prefix="//@") of a Go file
// or all lines (prefix="") of a spec file.
func parseContractText(path, text, prefix string) (*ContractFile, error) {
	cf := &ContractFile{Path: path}
	var lines []string
	for _, ln := range strings.Split(text, "\n") {
		t := strings.TrimSpace(ln)
		if prefix != "" {
			if !strings.HasPrefix(t, prefix) {
				continue
			}
			t = strings.TrimSpace(t[len(prefix):])
		}
		if i := strings.Index(t, " //"); i >= 0 {
			t = strings.TrimSpace(t[:i])
		}
		if strings.HasPrefix(t, "//") || strings.HasPrefix(t, "#") {
			continue
		}
		if t == "" {
			continue
		}
		first := t
		if i := strings.IndexAny(t, " \t("); i >= 0 {
			first = t[:i]
		}
		if !clauseKeywords[first] && len(lines) > 0 {
			lines[len(lines)-1] += " " + t
			continue
		}
		lines = append(lines, t)
	}
	var cur *FuncContract
	var curLemma *Lemma
	for _, ln := range lines {
		first, rest := ln, ""
		if i := strings.IndexAny(ln, " \t"); i >= 0 {
			first, rest = ln[:i], strings.TrimSpace(ln[i+1:])
		}
		fail := func(err error) (*ContractFile, error) {
			return nil, fmt.Errorf("%s: %q: %v", path, ln, err)
		}
		switch first {
		case "func":
			fc, err := parseFuncHeader(ln)
			if err != nil {
				return fail(err)
			}
			fc.File = path
			cf.Funcs = append(cf.Funcs, fc)
			cur, curLemma = fc, nil
			continue
		case "spec", "pred":
			sf, err := parseSpecFunc(ln)
			if err != nil {
				return fail(err)
			}
			sf.File = path
			cf.Specs = append(cf.Specs, sf)
			cur, curLemma = nil, nil
			continue
		case "axiom":
			i := strings.Index(rest, ":")
			if i < 0 {
				return fail(fmt.Errorf("axiom needs name:"))
			}
			e, err := ParseCExpr(rest[i+1:])
			if err != nil {
				return fail(err)
			}
			cf.Axioms = append(cf.Axioms, &Axiom{Name: strings.TrimSpace(rest[:i]), Expr: e, File: path})
			cur, curLemma = nil, nil
			continue
		case "ghostfield":
			sf, err := parseSpecFunc("spec func " + rest)
			if err != nil {
				return fail(err)
			}
			cf.GhostFields = append(cf.GhostFields, sf)
			cur, curLemma = nil, nil
			continue
		case "ghostvar":
			cf.GhostVars = append(cf.GhostVars, strings.Fields(rest)...)
			cur, curLemma = nil, nil
			continue
		case "lemma":
			fc, err := parseFuncHeader("func " + rest)
			if err != nil {
				return fail(err)
			}
			curLemma = &Lemma{Name: fc.Name, Params: fc.Params, File: path}
			cf.Lemmas = append(cf.Lemmas, curLemma)
			cur = nil
			continue
		}
		if curLemma != nil {
			switch first {
			case "props":
				curLemma.Props = strings.Fields(rest)
			case "mode":
				curLemma.Mode = rest
			case "induction":
				curLemma.Induct = rest
			case "requires", "ensures", "use", "unfold":
				e, err := ParseCExpr(rest)
				if err != nil {
					return fail(err)
				}
				switch first {
				case "requires":
					curLemma.Requires = append(curLemma.Requires, e)
				case "ensures":
					curLemma.Ensures = append(curLemma.Ensures, e)
				case "use":
					curLemma.Uses = append(curLemma.Uses, e)
				case "unfold":
					curLemma.Unfolds = append(curLemma.Unfolds, e)
				}
			default:
				return fail(fmt.Errorf("unknown lemma clause"))
			}
			continue
		}
		if cur == nil {
			return fail(fmt.Errorf("clause outside a func block"))
		}
		cl := &Clause{Kind: first, Text: rest, Line: ln}
		switch first {
		case "props":
			cur.Props = strings.Fields(rest)
			continue
		case "mode":
			cur.Mode = rest
			continue
		case "lit":
			n, err := strconv.Atoi(rest)
			if err != nil {
				return fail(err)
			}
			cur.IsLit = n
			continue
		case "pure", "trusted", "assumed", "inline", "wrap", "noframe", "nooverflow", "unrollall", "opaque", "mayalias":
			cur.Flags[first] = true
			continue
		case "pathcap":
			cur.Flags["pathcap:"+rest] = true
			continue
		case "loop":
			fs := strings.SplitN(rest, " ", 3)
			if len(fs) < 3 {
				return fail(fmt.Errorf("loop N kind expr"))
			}
			n, err := strconv.Atoi(fs[0])
			if err != nil {
				return fail(err)
			}
			cl.Loop = n
			cl.Kind = fs[1]
			cl.Text = fs[2]
		}
		// optional [C01 C02] property tags
		if strings.HasPrefix(cl.Text, "[") {
			if j := strings.Index(cl.Text, "]"); j > 0 {
				tags := strings.Fields(cl.Text[1:j])
				isTags := len(tags) > 0
				for _, tg := range tags {
					if len(tg) < 2 || tg[0] != 'C' {
						isTags = false
					}
				}
				if isTags {
					cl.Props = tags
					cl.Text = strings.TrimSpace(cl.Text[j+1:])
				}
			}
		}
		positional := cl.Kind == "assert"
		if (cl.Kind == "unfold" || cl.Kind == "use") && (strings.HasPrefix(cl.Text, "before \"") || strings.HasPrefix(cl.Text, "after \"")) {
			// unfold|use before|after "statement text prefix" f(args): applied at that point
			positional = true
		}
		if positional {
			// assert before|after "statement text prefix" <expr>
			fs := strings.SplitN(cl.Text, " ", 2)
			if len(fs) != 2 || (fs[0] != "before" && fs[0] != "after") {
				return fail(fmt.Errorf("assert before|after \"stmt\" expr"))
			}
			rest := strings.TrimSpace(fs[1])
			if !strings.HasPrefix(rest, "\"") {
				return fail(fmt.Errorf("assert: quoted statement text expected"))
			}
			j := 1
			for j < len(rest) && rest[j] != '"' {
				if rest[j] == '\\' {
					j++
				}
				j++
			}
			if j >= len(rest) {
				return fail(fmt.Errorf("assert: unterminated statement text"))
			}
			marker, err := strconv.Unquote(rest[:j+1])
			if err != nil {
				return fail(err)
			}
			e, err := ParseCExpr(rest[j+1:])
			if err != nil {
				return fail(err)
			}
			cl.Where, cl.Marker, cl.Expr = fs[0], marker, e
			if cl.Kind != "assert" {
				cl.Args = []*CExpr{e}
			}
			cur.Clauses = append(cur.Clauses, cl)
			continue
		}
		switch cl.Kind {
		case "requires", "ensures", "invariant", "decreases", "assume", "defines":
			e, err := ParseCExpr(cl.Text)
			if err != nil {
				return fail(err)
			}
			cl.Expr = e
		case "unroll", "deadreturn":
			// text = count / "return text" [occurrence]
		case "assigns", "use", "unfold", "fresh", "havoc", "reads", "panics", "ghost", "cases":
			if cl.Text != "nothing" && cl.Text != "never" && cl.Text != "" {
				for _, part := range splitTop(cl.Text, ',') {
					e, err := ParseCExpr(part)
					if err != nil {
						return fail(err)
					}
					cl.Args = append(cl.Args, e)
				}
			}
		default:
			return fail(fmt.Errorf("unknown clause kind %q", cl.Kind))
		}
		cur.Clauses = append(cur.Clauses, cl)
	}
	return cf, nil
}

func splitTop(s string, sep byte) []string {
	var out []string
	depth := 0
	last := 0
	for i := 0; i < len(s); i++ {
		switch s[i] {
		case '(', '[', '{':
			depth++
		case ')', ']', '}':
			depth--
		case sep:
			if depth == 0 {
				out = append(out, strings.TrimSpace(s[last:i]))
				last = i + 1
			}
		}
	}
	out = append(out, strings.TrimSpace(s[last:]))
	return out
}

// parseFuncHeader parses `func (r T) Name(params) (results)`; a qualified
// package path may precede the name: `func crypto/subtle.XORBytes(...)`, and a
// receiver type may be qualified: `func (b crypto/cipher.Block) Encrypt(...)`.
func parseFuncHeader(ln string) (*FuncContract, error) {
	fc := &FuncContract{Header: ln, Flags: map[string]bool{}}
	s := strings.TrimSpace(strings.TrimPrefix(ln, "func"))
	if strings.HasPrefix(s, "(") {
		j := matchParen(s, 0)
		if j < 0 {
			return nil, fmt.Errorf("bad receiver")
		}
		recv := strings.Fields(s[1:j])
		if len(recv) == 2 {
			fc.RecvName = recv[0]
			recv = recv[1:]
		}
		if len(recv) != 1 {
			return nil, fmt.Errorf("bad receiver %q", s[1:j])
		}
		rt := recv[0]
		if strings.HasPrefix(rt, "*") {
			fc.RecvPtr = true
			rt = rt[1:]
		}
		if k := strings.LastIndex(rt, "."); k >= 0 {
			fc.PkgPath = rt[:k]
			rt = rt[k+1:]
		}
		if k := strings.Index(rt, "["); k >= 0 { // generic receiver T[P]
			rt = rt[:k]
		}
		fc.RecvType = rt
		s = strings.TrimSpace(s[j+1:])
	}
	i := strings.Index(s, "(")
	if i < 0 {
		return nil, fmt.Errorf("missing parameter list")
	}
	name := strings.TrimSpace(s[:i])
	if k := strings.LastIndex(name, "."); k >= 0 {
		fc.PkgPath = name[:k]
		name = name[k+1:]
	}
	if k := strings.Index(name, "["); k >= 0 {
		name = name[:k]
	}
	fc.Name = name
	j := matchParen(s, i)
	if j < 0 {
		return nil, fmt.Errorf("unbalanced parameter list")
	}
	ps, err := parseVarList(s[i+1 : j])
	if err != nil {
		return nil, err
	}
	fc.Params = ps
	rest := strings.TrimSpace(s[j+1:])
	if rest != "" {
		if strings.HasPrefix(rest, "(") {
			k := matchParen(rest, 0)
			if k < 0 {
				return nil, fmt.Errorf("unbalanced result list")
			}
			rs, err := parseVarList(rest[1:k])
			if err != nil {
				return nil, err
			}
			fc.Results = rs
		} else {
			return nil, fmt.Errorf("results must be named and parenthesised: %q", rest)
		}
	}
	return fc, nil
}

func matchParen(s string, i int) int {
	depth := 0
	for j := i; j < len(s); j++ {
		switch s[j] {
		case '(':
			depth++
		case ')':
			depth--
			if depth == 0 {
				return j
			}
		}
	}
	return -1
}

// parseVarList parses "a, b T, c U".
func parseVarList(s string) ([]CVar, error) {
	s = strings.TrimSpace(s)
	if s == "" {
		return nil, nil
	}
	var out []CVar
	var pending []string
	for _, part := range splitTop(s, ',') {
		part = strings.TrimSpace(part)
		i := strings.IndexAny(part, " \t")
		if i < 0 {
			pending = append(pending, part)
			continue
		}
		name := part[:i]
		tyText := strings.TrimSpace(part[i+1:])
		ty, err := parseCTypeText(tyText)
		if err != nil {
			return nil, err
		}
		for _, n := range pending {
			out = append(out, CVar{n, ty})
		}
		pending = nil
		out = append(out, CVar{name, ty})
	}
	if len(pending) > 0 {
		return nil, fmt.Errorf("parameters without type: %v", pending)
	}
	return out, nil
}

func parseCTypeText(s string) (ty *CType, err error) {
	s = strings.TrimPrefix(strings.TrimSpace(s), "...")
	// allow package paths with slashes in type names: take last path element qualifier
	if strings.Contains(s, "/") {
		pre := ""
		for strings.HasPrefix(s, "*") || strings.HasPrefix(s, "[]") {
			if s[0] == '*' {
				pre += "*"
				s = s[1:]
			} else {
				pre += "[]"
				s = s[2:]
			}
		}
		k := strings.LastIndex(s, "/")
		s = pre + s[k+1:]
	}
	toks, err := lexExpr(s)
	if err != nil {
		return nil, err
	}
	p := &eparser{toks: toks, src: s}
	defer func() {
		if r := recover(); r != nil {
			if er, ok := r.(error); ok {
				err = er
				return
			}
			panic(r)
		}
	}()
	ty = p.ctype()
	if p.peek().kind != "eof" {
		return nil, fmt.Errorf("bad type %q", s)
	}
	return ty, nil
}

// spec func name(params) R = body     |  spec func name(params) R
// spec rec func ... ; spec opaque func ... = body ; pred name(params) = body
func parseSpecFunc(ln string) (*SpecFunc, error) {
	sf := &SpecFunc{}
	s := ln
	if strings.HasPrefix(s, "pred ") {
		s = "spec func " + strings.TrimPrefix(s, "pred ")
	}
	s = strings.TrimSpace(strings.TrimPrefix(s, "spec"))
	for {
		if strings.HasPrefix(s, "rec ") {
			sf.Rec = true
			s = strings.TrimSpace(s[4:])
		} else if strings.HasPrefix(s, "opaque ") {
			sf.Opaque = true
			s = strings.TrimSpace(s[7:])
		} else {
			break
		}
	}
	if !strings.HasPrefix(s, "func ") {
		return nil, fmt.Errorf("spec: expected func")
	}
	s = strings.TrimSpace(s[5:])
	i := strings.Index(s, "(")
	j := matchParen(s, i)
	if i < 0 || j < 0 {
		return nil, fmt.Errorf("spec: bad parameter list")
	}
	sf.Name = strings.TrimSpace(s[:i])
	ps, err := parseVarList(s[i+1 : j])
	if err != nil {
		return nil, err
	}
	sf.Params = ps
	rest := strings.TrimSpace(s[j+1:])
	body := ""
	if k := indexTopEq(rest); k >= 0 {
		body = strings.TrimSpace(rest[k+1:])
		rest = strings.TrimSpace(rest[:k])
	}
	if rest == "" {
		rest = "bool"
	}
	rt, err := parseCTypeText(rest)
	if err != nil {
		return nil, err
	}
	sf.Result = rt
	if body != "" {
		e, err := ParseCExpr(body)
		if err != nil {
			return nil, err
		}
		sf.Body = e
	}
	return sf, nil
}

// indexTopEq finds a single '=' (not ==, <=, >=, !=, ==>) at depth 0.
func indexTopEq(s string) int {
	depth := 0
	for i := 0; i < len(s); i++ {
		switch s[i] {
		case '(', '[':
			depth++
		case ')', ']':
			depth--
		case '=':
			if depth == 0 {
				prev := byte(' ')
				if i > 0 {
					prev = s[i-1]
				}
				next := byte(' ')
				if i+1 < len(s) {
					next = s[i+1]
				}
				if next != '=' && prev != '=' && prev != '<' && prev != '>' && prev != '!' {
					return i
				}
			}
		}
	}
	return -1
}

func loadContractFile(path, prefix string) (*ContractFile, error) {
	b, err := os.ReadFile(path)
	if err != nil {
		return nil, err
	}
	return parseContractText(path, string(b), prefix)
}
