package main

// Terms: a small typed s-expression layer with a light simplifier.  Sorts are
// SMT-LIB sort texts.  Every term caches its printed form; structural
// equality is string equality.

import (
	"fmt"
	"math/big"
	"sort"
	"strings"
)

type Term struct {
	Op   string
	Args []*Term
	Sort string
	// literal payloads
	IsLit bool
	Int   *big.Int // for Int and BV literals
	Width int      // BV literal width (0 = Int)
	// binder payload (forall/exists/let)
	Binders []*Term // constant symbols bound
	str     string
	size    int
}

const (
	SInt   = "Int"
	SBool  = "Bool"
	SSlice = "Slice"
	SIface = "Iface"
	SStr   = "Str"
)

func SBV(w int) string        { return fmt.Sprintf("(_ BitVec %d)", w) }
func SArr(k, v string) string { return "(Array " + k + " " + v + ")" }
func isBVSort(s string) (int, bool) {
	if strings.HasPrefix(s, "(_ BitVec ") {
		var w int
		fmt.Sscanf(s, "(_ BitVec %d)", &w)
		return w, true
	}
	return 0, false
}
func arrSorts(s string) (k, v string, ok bool) {
	if !strings.HasPrefix(s, "(Array ") {
		return "", "", false
	}
	body := s[len("(Array ") : len(s)-1]
	// split first sort
	depth := 0
	for i := 0; i < len(body); i++ {
		switch body[i] {
		case '(':
			depth++
		case ')':
			depth--
		case ' ':
			if depth == 0 {
				return body[:i], body[i+1:], true
			}
		}
	}
	return "", "", false
}

func (t *Term) String() string {
	if t.str != "" {
		return t.str
	}
	var sb strings.Builder
	t.write(&sb)
	t.str = sb.String()
	return t.str
}

func (t *Term) Size() int {
	if t.size == 0 {
		n := 1
		for _, a := range t.Args {
			n += a.Size()
		}
		t.size = n
	}
	return t.size
}

func (t *Term) write(sb *strings.Builder) {
	if t.str != "" {
		sb.WriteString(t.str)
		return
	}
	if t.IsLit {
		switch {
		case t.Sort == SBool:
			sb.WriteString(t.Op)
		case t.Width > 0:
			fmt.Fprintf(sb, "(_ bv%s %d)", t.Int.String(), t.Width)
		default:
			if t.Int.Sign() < 0 {
				fmt.Fprintf(sb, "(- %s)", new(big.Int).Neg(t.Int).String())
			} else {
				sb.WriteString(t.Int.String())
			}
		}
		return
	}
	if t.Op == "forall" || t.Op == "exists" {
		sb.WriteString("(" + t.Op + " (")
		for _, b := range t.Binders {
			fmt.Fprintf(sb, "(%s %s)", b.Op, b.Sort)
		}
		sb.WriteString(") ")
		var pats []*Term
		for _, p := range t.Args[1:] {
			if !hasIte(p) { // ite is not allowed inside patterns
				pats = append(pats, p)
			}
		}
		if len(pats) > 0 { // patterns
			sb.WriteString("(! ")
			t.Args[0].write(sb)
			for _, p := range pats {
				sb.WriteString(" :pattern (")
				if p.Op == "multipat" {
					for i, q := range p.Args {
						if i > 0 {
							sb.WriteString(" ")
						}
						q.write(sb)
					}
				} else {
					p.write(sb)
				}
				sb.WriteString(")")
			}
			sb.WriteString(")")
		} else {
			t.Args[0].write(sb)
		}
		sb.WriteString(")")
		return
	}
	if len(t.Args) == 0 {
		sb.WriteString(t.Op)
		return
	}
	if t.Op == "const-array" {
		sb.WriteString("((as const " + t.Sort + ") ")
		t.Args[0].write(sb)
		sb.WriteString(")")
		return
	}
	sb.WriteString("(")
	sb.WriteString(t.Op)
	for _, a := range t.Args {
		sb.WriteString(" ")
		a.write(sb)
	}
	sb.WriteString(")")
}

func mk(op, sort string, args ...*Term) *Term { return &Term{Op: op, Sort: sort, Args: args} }

var (
	TTrue  = &Term{Op: "true", Sort: SBool, IsLit: true}
	TFalse = &Term{Op: "false", Sort: SBool, IsLit: true}
)

func BoolLit(b bool) *Term {
	if b {
		return TTrue
	}
	return TFalse
}
func IntLit(n int64) *Term     { return &Term{Sort: SInt, IsLit: true, Int: big.NewInt(n)} }
func IntLitB(n *big.Int) *Term { return &Term{Sort: SInt, IsLit: true, Int: new(big.Int).Set(n)} }
func BVLitB(n *big.Int, w int) *Term {
	m := new(big.Int).Set(n)
	mod := new(big.Int).Lsh(big.NewInt(1), uint(w))
	m.Mod(m, mod)
	return &Term{Sort: SBV(w), IsLit: true, Int: m, Width: w}
}
func BVLit(n int64, w int) *Term    { return BVLitB(big.NewInt(n), w) }
func Const(name, sort string) *Term { return &Term{Op: name, Sort: sort} }

func (t *Term) isInt() bool  { return t.IsLit && t.Sort == SInt }
func (t *Term) isBV() bool   { return t.IsLit && t.Width > 0 }
func (t *Term) isTrue() bool { return t == TTrue || (t.IsLit && t.Op == "true") }
func (t *Term) isFalse() bool {
	return t == TFalse || (t.IsLit && t.Op == "false")
}
func sameTerm(a, b *Term) bool { return a == b || a.String() == b.String() }

// ---------- boolean ----------

func Not(a *Term) *Term {
	if a.isTrue() {
		return TFalse
	}
	if a.isFalse() {
		return TTrue
	}
	if a.Op == "not" && len(a.Args) == 1 {
		return a.Args[0]
	}
	return mk("not", SBool, a)
}

func And(as ...*Term) *Term {
	var out []*Term
	seen := map[string]bool{}
	for _, a := range as {
		if a == nil || a.isTrue() {
			continue
		}
		if a.isFalse() {
			return TFalse
		}
		if a.Op == "and" && !a.IsLit {
			for _, x := range a.Args {
				if !seen[x.String()] {
					seen[x.String()] = true
					out = append(out, x)
				}
			}
			continue
		}
		if !seen[a.String()] {
			seen[a.String()] = true
			out = append(out, a)
		}
	}
	if len(out) == 0 {
		return TTrue
	}
	if len(out) == 1 {
		return out[0]
	}
	return mk("and", SBool, out...)
}

func Or(as ...*Term) *Term {
	var out []*Term
	for _, a := range as {
		if a == nil || a.isFalse() {
			continue
		}
		if a.isTrue() {
			return TTrue
		}
		if a.Op == "or" && !a.IsLit {
			out = append(out, a.Args...)
			continue
		}
		out = append(out, a)
	}
	if len(out) == 0 {
		return TFalse
	}
	if len(out) == 1 {
		return out[0]
	}
	return mk("or", SBool, out...)
}

func Implies(a, b *Term) *Term {
	if a.isTrue() {
		return b
	}
	if a.isFalse() || b.isTrue() {
		return TTrue
	}
	if b.isFalse() {
		return Not(a)
	}
	return mk("=>", SBool, a, b)
}

func Ite(c, a, b *Term) *Term {
	if c.isTrue() {
		return a
	}
	if c.isFalse() {
		return b
	}
	if sameTerm(a, b) {
		return a
	}
	if a.Sort == SBool {
		if a.isTrue() && b.isFalse() {
			return c
		}
		if a.isFalse() && b.isTrue() {
			return Not(c)
		}
	}
	return mk("ite", a.Sort, c, a, b)
}

func Eq(a, b *Term) *Term {
	if a.Sort != b.Sort {
		panic(fmt.Sprintf("Eq: sort mismatch %s : %s  vs  %s : %s", a, a.Sort, b, b.Sort))
	}
	if sameTerm(a, b) {
		return TTrue
	}
	if a.IsLit && b.IsLit {
		if a.Sort == SBool {
			return BoolLit(a.Op == b.Op)
		}
		return BoolLit(a.Int.Cmp(b.Int) == 0)
	}
	if a.Sort == SBool {
		if b.isTrue() {
			return a
		}
		if b.isFalse() {
			return Not(a)
		}
		if a.isTrue() {
			return b
		}
		if a.isFalse() {
			return Not(b)
		}
	}
	// mk-slice / mk-iface componentwise when both are constructors
	if a.Op == b.Op && strings.HasPrefix(a.Op, "mk-") && len(a.Args) == len(b.Args) && len(a.Args) > 0 {
		var cs []*Term
		for i := range a.Args {
			cs = append(cs, Eq(a.Args[i], b.Args[i]))
		}
		return And(cs...)
	}
	return mk("=", SBool, a, b)
}
func Neq(a, b *Term) *Term { return Not(Eq(a, b)) }

// ---------- Int arithmetic ----------

// Linear normal form for Int sums: sum of coef*atom + const, atoms ordered by
// their printed form.  Add, Sub and NegI always return this form, so that
// syntactically different spellings of one linear expression coincide.
type linAtom struct {
	coef *big.Int
	t    *Term
}

func linAccum(t *Term, k *big.Int, m map[string]*linAtom, c *big.Int) {
	switch {
	case t.isInt():
		c.Add(c, new(big.Int).Mul(k, t.Int))
	case t.Op == "+" && t.Sort == SInt && !t.IsLit:
		for _, a := range t.Args {
			linAccum(a, k, m, c)
		}
	case t.Op == "-" && t.Sort == SInt && !t.IsLit && len(t.Args) == 1:
		linAccum(t.Args[0], new(big.Int).Neg(k), m, c)
	case t.Op == "-" && t.Sort == SInt && !t.IsLit && len(t.Args) >= 2:
		linAccum(t.Args[0], k, m, c)
		nk := new(big.Int).Neg(k)
		for _, a := range t.Args[1:] {
			linAccum(a, nk, m, c)
		}
	case t.Op == "*" && t.Sort == SInt && !t.IsLit && len(t.Args) == 2 && t.Args[0].isInt():
		linAccum(t.Args[1], new(big.Int).Mul(k, t.Args[0].Int), m, c)
	case t.Op == "*" && t.Sort == SInt && !t.IsLit && len(t.Args) == 2 && t.Args[1].isInt():
		linAccum(t.Args[0], new(big.Int).Mul(k, t.Args[1].Int), m, c)
	default:
		key := t.String()
		if e, ok := m[key]; ok {
			e.coef.Add(e.coef, k)
		} else {
			m[key] = &linAtom{new(big.Int).Set(k), t}
		}
	}
}

func linBuild(m map[string]*linAtom, c *big.Int) *Term {
	keys := make([]string, 0, len(m))
	for k, e := range m {
		if e.coef.Sign() != 0 {
			keys = append(keys, k)
		}
	}
	sort.Strings(keys)
	var out []*Term
	one := big.NewInt(1)
	for _, k := range keys {
		e := m[k]
		if e.coef.Cmp(one) == 0 {
			out = append(out, e.t)
		} else {
			out = append(out, mk("*", SInt, IntLitB(e.coef), e.t))
		}
	}
	if len(out) == 0 {
		return IntLitB(c)
	}
	if c.Sign() != 0 {
		out = append(out, IntLitB(c))
	}
	if len(out) == 1 {
		return out[0]
	}
	return mk("+", SInt, out...)
}

func Add(as ...*Term) *Term {
	m := map[string]*linAtom{}
	c := new(big.Int)
	one := big.NewInt(1)
	for _, a := range as {
		linAccum(a, one, m, c)
	}
	return linBuild(m, c)
}

func Sub(a, b *Term) *Term {
	m := map[string]*linAtom{}
	c := new(big.Int)
	linAccum(a, big.NewInt(1), m, c)
	linAccum(b, big.NewInt(-1), m, c)
	return linBuild(m, c)
}

func NegI(a *Term) *Term {
	m := map[string]*linAtom{}
	c := new(big.Int)
	linAccum(a, big.NewInt(-1), m, c)
	return linBuild(m, c)
}

// linearIn splits t = coef*x + rest for the constant symbol x; ok=false if x
// occurs non-linearly (inside another atom).
func linearIn(t *Term, x string) (coef *big.Int, rest *Term, ok bool) {
	m := map[string]*linAtom{}
	c := new(big.Int)
	linAccum(t, big.NewInt(1), m, c)
	coef = new(big.Int)
	nested := false
	for k, e := range m {
		if k == x {
			coef.Set(e.coef)
			delete(m, k)
			continue
		}
		cs := map[string]string{}
		e.t.Symbols(cs, map[string]bool{})
		if _, has := cs[x]; has {
			nested = true
		}
	}
	if nested && coef.Sign() != 0 {
		return nil, nil, false
	}
	if nested {
		return new(big.Int), nil, true // x only inside other atoms: not an index use here
	}
	return coef, linBuild(m, c), true
}

func Mul(a, b *Term) *Term {
	if a.isInt() && b.isInt() {
		return IntLitB(new(big.Int).Mul(a.Int, b.Int))
	}
	if a.isInt() && a.Int.Sign() == 0 || b.isInt() && b.Int.Sign() == 0 {
		return IntLit(0)
	}
	if a.isInt() && a.Int.Cmp(big.NewInt(1)) == 0 {
		return b
	}
	if b.isInt() && b.Int.Cmp(big.NewInt(1)) == 0 {
		return a
	}
	if b.isInt() { // constant first
		a, b = b, a
	}
	if a.isInt() {
		m := map[string]*linAtom{}
		c := new(big.Int)
		linAccum(b, a.Int, m, c)
		return linBuild(m, c)
	}
	return mk("*", SInt, a, b)
}

// Div / Mod are SMT-LIB (floor for positive divisor) operators.
func Div(a, b *Term) *Term {
	if a.isInt() && b.isInt() && b.Int.Sign() > 0 {
		q := new(big.Int)
		m := new(big.Int)
		q.DivMod(a.Int, b.Int, m) // Euclidean
		return IntLitB(q)
	}
	if b.isInt() && b.Int.Cmp(big.NewInt(1)) == 0 {
		return a
	}
	return mk("div", SInt, a, b)
}

func Mod(a, b *Term) *Term {
	if a.isInt() && b.isInt() && b.Int.Sign() > 0 {
		return IntLitB(new(big.Int).Mod(a.Int, b.Int))
	}
	// (x mod m) mod m
	if a.Op == "mod" && sameTerm(a.Args[1], b) {
		return a
	}
	return mk("mod", SInt, a, b)
}

func cmpFold(op string, a, b *Term) *Term {
	if a.isInt() && b.isInt() {
		c := a.Int.Cmp(b.Int)
		switch op {
		case "<":
			return BoolLit(c < 0)
		case "<=":
			return BoolLit(c <= 0)
		case ">":
			return BoolLit(c > 0)
		case ">=":
			return BoolLit(c >= 0)
		}
	}
	if sameTerm(a, b) {
		return BoolLit(op == "<=" || op == ">=")
	}
	return mk(op, SBool, a, b)
}
func Lt(a, b *Term) *Term { return cmpFold("<", a, b) }
func Le(a, b *Term) *Term { return cmpFold("<=", a, b) }
func Gt(a, b *Term) *Term { return cmpFold(">", a, b) }
func Ge(a, b *Term) *Term { return cmpFold(">=", a, b) }

func Pow2(k int) *big.Int { return new(big.Int).Lsh(big.NewInt(1), uint(k)) }

// ---------- arrays ----------

func Select(a, i *Term) *Term {
	_, v, ok := arrSorts(a.Sort)
	if !ok {
		panic("Select on non-array " + a.String() + " : " + a.Sort)
	}
	// select over store chain with decidable indices
	cur := a
	for cur.Op == "store" && len(cur.Args) == 3 {
		j := cur.Args[1]
		if sameTerm(i, j) {
			return cur.Args[2]
		}
		if distinctConst(i, j) {
			cur = cur.Args[0]
			continue
		}
		break
	}
	if cur.Op == "const-array" {
		return cur.Args[0]
	}
	return mk("select", v, cur, i)
}

// distinctConst reports whether two index terms are certainly different
// (literals, or x+c1 vs x+c2).
func distinctConst(a, b *Term) bool {
	if a.IsLit && b.IsLit && a.Int != nil && b.Int != nil {
		return a.Int.Cmp(b.Int) != 0
	}
	if a.Sort != SInt {
		return false
	}
	ba, ca := splitConst(a)
	bb, cb := splitConst(b)
	if ba == bb && ca.Cmp(cb) != 0 {
		return true
	}
	return false
}

func splitConst(a *Term) (string, *big.Int) {
	if a.isInt() {
		return "", a.Int
	}
	if a.Op == "+" && len(a.Args) >= 2 && a.Args[len(a.Args)-1].isInt() {
		rest := a.Args[:len(a.Args)-1]
		var ss []string
		for _, r := range rest {
			ss = append(ss, r.String())
		}
		return strings.Join(ss, " "), a.Args[len(a.Args)-1].Int
	}
	return a.String(), big.NewInt(0)
}

func Store(a, i, v *Term) *Term {
	_, vs, ok := arrSorts(a.Sort)
	if !ok {
		panic("Store on non-array " + a.Sort)
	}
	if vs != v.Sort {
		panic(fmt.Sprintf("Store: value sort %s into %s (%s)", v.Sort, a.Sort, v))
	}
	if a.Op == "store" && sameTerm(a.Args[1], i) {
		return mk("store", a.Sort, a.Args[0], i, v)
	}
	return mk("store", a.Sort, a, i, v)
}

// ConstArray is printed as ((as const S) v).
func ConstArray(sort string, v *Term) *Term {
	return &Term{Op: "const-array", Sort: sort, Args: []*Term{v}}
}

// ---------- bit-vectors ----------

func bvBin(op string, a, b *Term) *Term {
	if a.Sort != b.Sort {
		panic(fmt.Sprintf("bv %s: %s:%s vs %s:%s", op, a, a.Sort, b, b.Sort))
	}
	w, _ := isBVSort(a.Sort)
	if a.isBV() && b.isBV() {
		x, y := a.Int, b.Int
		r := new(big.Int)
		ok := true
		switch op {
		case "bvadd":
			r.Add(x, y)
		case "bvsub":
			r.Sub(x, y)
		case "bvmul":
			r.Mul(x, y)
		case "bvand":
			r.And(x, y)
		case "bvor":
			r.Or(x, y)
		case "bvxor":
			r.Xor(x, y)
		case "bvshl":
			if y.Cmp(big.NewInt(int64(w))) >= 0 {
				r.SetInt64(0)
			} else {
				r.Lsh(x, uint(y.Int64()))
			}
		case "bvlshr":
			if y.Cmp(big.NewInt(int64(w))) >= 0 {
				r.SetInt64(0)
			} else {
				r.Rsh(x, uint(y.Int64()))
			}
		case "bvudiv":
			if y.Sign() == 0 {
				ok = false
			} else {
				r.Div(x, y)
			}
		case "bvurem":
			if y.Sign() == 0 {
				ok = false
			} else {
				r.Mod(x, y)
			}
		default:
			ok = false
		}
		if ok {
			return BVLitB(r, w)
		}
	}
	// identities
	zero := func(t *Term) bool { return t.isBV() && t.Int.Sign() == 0 }
	switch op {
	case "bvadd", "bvor", "bvxor":
		if zero(a) {
			return b
		}
		if zero(b) {
			return a
		}
	case "bvsub", "bvshl", "bvlshr", "bvashr":
		if zero(b) {
			return a
		}
	case "bvand":
		if zero(a) || zero(b) {
			return BVLit(0, w)
		}
	}
	return mk(op, a.Sort, a, b)
}

func bvCmp(op string, a, b *Term) *Term {
	if a.Sort != b.Sort {
		panic(fmt.Sprintf("bv %s: %s:%s vs %s:%s", op, a, a.Sort, b, b.Sort))
	}
	if a.isBV() && b.isBV() {
		w := a.Width
		x, y := a.Int, b.Int
		if op[2] == 's' {
			x, y = toSigned(x, w), toSigned(y, w)
		}
		c := x.Cmp(y)
		switch op {
		case "bvult", "bvslt":
			return BoolLit(c < 0)
		case "bvule", "bvsle":
			return BoolLit(c <= 0)
		case "bvugt", "bvsgt":
			return BoolLit(c > 0)
		case "bvuge", "bvsge":
			return BoolLit(c >= 0)
		}
	}
	return mk(op, SBool, a, b)
}

func toSigned(x *big.Int, w int) *big.Int {
	if x.Cmp(Pow2(w-1)) >= 0 {
		return new(big.Int).Sub(x, Pow2(w))
	}
	return x
}

func bvNot(a *Term) *Term {
	if a.isBV() {
		m := new(big.Int).Sub(Pow2(a.Width), big.NewInt(1))
		return BVLitB(new(big.Int).Xor(a.Int, m), a.Width)
	}
	return mk("bvnot", a.Sort, a)
}
func bvNeg(a *Term) *Term {
	if a.isBV() {
		return BVLitB(new(big.Int).Neg(a.Int), a.Width)
	}
	return mk("bvneg", a.Sort, a)
}

func bvExtract(hi, lo int, a *Term) *Term {
	w, _ := isBVSort(a.Sort)
	if lo == 0 && hi == w-1 {
		return a
	}
	if a.isBV() {
		r := new(big.Int).Rsh(a.Int, uint(lo))
		return BVLitB(r, hi-lo+1)
	}
	return mk(fmt.Sprintf("(_ extract %d %d)", hi, lo), SBV(hi-lo+1), a)
}

func bvZeroExt(k int, a *Term) *Term {
	if k == 0 {
		return a
	}
	w, _ := isBVSort(a.Sort)
	if a.isBV() {
		return BVLitB(a.Int, w+k)
	}
	return mk(fmt.Sprintf("(_ zero_extend %d)", k), SBV(w+k), a)
}

func bvSignExt(k int, a *Term) *Term {
	if k == 0 {
		return a
	}
	w, _ := isBVSort(a.Sort)
	if a.isBV() {
		return BVLitB(toSigned(a.Int, w), w+k)
	}
	return mk(fmt.Sprintf("(_ sign_extend %d)", k), SBV(w+k), a)
}

func bvConcat(a, b *Term) *Term {
	wa, _ := isBVSort(a.Sort)
	wb, _ := isBVSort(b.Sort)
	if a.isBV() && b.isBV() {
		r := new(big.Int).Lsh(a.Int, uint(wb))
		r.Or(r, b.Int)
		return BVLitB(r, wa+wb)
	}
	return mk("concat", SBV(wa+wb), a, b)
}

// bv2int: unsigned value of a BV as Int.
func bv2nat(a *Term) *Term {
	if a.isBV() {
		return IntLitB(a.Int)
	}
	if a.Op == "int2bv!" { // our own marker: (int2bv w x) of x known in range
		return a.Args[0]
	}
	return mk("bv2nat", SInt, a)
}

func int2bv(w int, a *Term) *Term {
	if a.isInt() {
		return BVLitB(a.Int, w)
	}
	if a.Op == "bv2nat" {
		ws, _ := isBVSort(a.Args[0].Sort)
		if ws == w {
			return a.Args[0]
		}
	}
	return mk(fmt.Sprintf("(_ int2bv %d)", w), SBV(w), a)
}

// ---------- datatypes: Slice, Iface ----------

func MkSlice(base, off, ln, cp *Term) *Term { return mk("mk-slice", SSlice, base, off, ln, cp) }

func acc(name string, idx int, sort string, s *Term) *Term {
	if strings.HasPrefix(s.Op, "mk-") && len(s.Args) > idx {
		return s.Args[idx]
	}
	if s.Op == "ite" {
		return Ite(s.Args[0], acc(name, idx, sort, s.Args[1]), acc(name, idx, sort, s.Args[2]))
	}
	return mk(name, sort, s)
}
func SBase(s *Term) *Term { return acc("s.base", 0, SInt, s) }
func SOff(s *Term) *Term  { return acc("s.off", 1, SInt, s) }
func SLen(s *Term) *Term  { return acc("s.len", 2, SInt, s) }
func SCap(s *Term) *Term  { return acc("s.cap", 3, SInt, s) }

var NilSlice = MkSlice(IntLit(0), IntLit(0), IntLit(0), IntLit(0))

func MkIface(typ, val *Term) *Term { return mk("mk-iface", SIface, typ, val) }
func IType(s *Term) *Term          { return acc("i.type", 0, SInt, s) }
func IVal(s *Term) *Term           { return acc("i.val", 1, SInt, s) }

var NilIface = MkIface(IntLit(0), IntLit(0))

// ---------- quantifiers ----------

func Forall(vars []*Term, body *Term, pats ...*Term) *Term {
	if body.isTrue() {
		return TTrue
	}
	if len(vars) == 0 {
		return body
	}
	return &Term{Op: "forall", Sort: SBool, Binders: vars, Args: append([]*Term{body}, pats...)}
}
func Exists(vars []*Term, body *Term) *Term {
	if body.isFalse() {
		return TFalse
	}
	if len(vars) == 0 {
		return body
	}
	return &Term{Op: "exists", Sort: SBool, Binders: vars, Args: []*Term{body}}
}

// ---------- substitution ----------

func (t *Term) Subst(m map[string]*Term) *Term {
	if len(m) == 0 {
		return t
	}
	return t.subst(m, map[*Term]*Term{})
}

func (t *Term) subst(m map[string]*Term, memo map[*Term]*Term) *Term {
	if r, ok := memo[t]; ok {
		return r
	}
	var res *Term
	if t.IsLit {
		res = t
	} else if len(t.Args) == 0 {
		if r, ok := m[t.Op]; ok {
			res = r
		} else {
			res = t
		}
	} else if t.Op == "forall" || t.Op == "exists" {
		// bound names are globally unique by construction, no capture
		na := make([]*Term, len(t.Args))
		for i, a := range t.Args {
			na[i] = a.subst(m, memo)
		}
		res = &Term{Op: t.Op, Sort: t.Sort, Binders: t.Binders, Args: na}
	} else {
		na := make([]*Term, len(t.Args))
		changed := false
		for i, a := range t.Args {
			na[i] = a.subst(m, memo)
			if na[i] != a {
				changed = true
			}
		}
		if !changed {
			res = t
		} else {
			res = rebuild(t, na)
		}
	}
	memo[t] = res
	return res
}

// rebuild re-applies the simplifying constructor for known ops.
func rebuild(t *Term, a []*Term) *Term {
	switch t.Op {
	case "and":
		return And(a...)
	case "or":
		return Or(a...)
	case "not":
		return Not(a[0])
	case "=>":
		return Implies(a[0], a[1])
	case "ite":
		return Ite(a[0], a[1], a[2])
	case "=":
		return Eq(a[0], a[1])
	case "+":
		return Add(a...)
	case "-":
		if len(a) == 1 {
			return NegI(a[0])
		}
		r := a[0]
		for _, x := range a[1:] {
			r = Sub(r, x)
		}
		return r
	case "*":
		return Mul(a[0], a[1])
	case "div":
		return Div(a[0], a[1])
	case "mod":
		return Mod(a[0], a[1])
	case "<", "<=", ">", ">=":
		return cmpFold(t.Op, a[0], a[1])
	case "select":
		return Select(a[0], a[1])
	case "store":
		return Store(a[0], a[1], a[2])
	case "s.base":
		return SBase(a[0])
	case "s.off":
		return SOff(a[0])
	case "s.len":
		return SLen(a[0])
	case "s.cap":
		return SCap(a[0])
	case "i.type":
		return IType(a[0])
	case "i.val":
		return IVal(a[0])
	case "bv2nat":
		return bv2nat(a[0])
	}
	if strings.HasPrefix(t.Op, "bv") && len(a) == 2 {
		if t.Sort == SBool {
			return bvCmp(t.Op, a[0], a[1])
		}
		return bvBin(t.Op, a[0], a[1])
	}
	if dt, ok := accessorOf[t.Op]; ok && len(a) == 1 {
		return acc(t.Op, dt.idx, t.Sort, a[0])
	}
	return &Term{Op: t.Op, Sort: t.Sort, Args: a}
}

// accessorOf: struct datatype field accessors registered by the translator.
type accInfo struct{ idx int }

var accessorOf = map[string]accInfo{}

// ---------- free symbols ----------

// Symbols collects all 0-ary non-literal symbol names and applied function
// names used by t (excluding bound variables).
func (t *Term) Symbols(out map[string]string, fns map[string]bool) {
	t.symbols(out, fns, map[*Term]bool{})
}

func (t *Term) symbols(out map[string]string, fns map[string]bool, seen map[*Term]bool) {
	if seen[t] {
		return
	}
	seen[t] = true
	if t.IsLit {
		return
	}
	if len(t.Args) == 0 {
		out[t.Op] = t.Sort
		return
	}
	if t.Op == "forall" || t.Op == "exists" {
		inner := map[string]string{}
		for _, a := range t.Args {
			a.symbols(inner, fns, seen)
		}
		for _, b := range t.Binders {
			delete(inner, b.Op)
		}
		for k, v := range inner {
			out[k] = v
		}
		return
	}
	fns[t.Op] = true
	for _, a := range t.Args {
		a.symbols(out, fns, seen)
	}
}

func sortedKeys[V any](m map[string]V) []string {
	ks := make([]string, 0, len(m))
	for k := range m {
		ks = append(ks, k)
	}
	sort.Strings(ks)
	return ks
}

func hasIte(t *Term) bool {
	if t.IsLit {
		return false
	}
	if t.Op == "ite" {
		return true
	}
	for _, a := range t.Args {
		if hasIte(a) {
			return true
		}
	}
	return false
}
