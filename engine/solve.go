package main

// SMT script assembly and the solver portfolio.

import (
	"bytes"
	"context"
	"crypto/sha256"
	"fmt"
	"os"
	"os/exec"
	"path/filepath"
	"strings"
	"sync"
	"sync/atomic"
	"time"
)

const prelude = `(declare-datatypes ((Slice 0)) (((mk-slice (s.base Int) (s.off Int) (s.len Int) (s.cap Int)))))
(declare-datatypes ((Iface 0)) (((mk-iface (i.type Int) (i.val Int)))))
(declare-sort Str 0)
`

var builtinOps = map[string]bool{
	"and": true, "or": true, "not": true, "=>": true, "ite": true, "=": true, "+": true, "-": true, "*": true, "div": true, "mod": true,
	"<": true, "<=": true, ">": true, ">=": true, "select": true, "store": true, "distinct": true, "concat": true, "bv2nat": true,
	"mk-slice": true, "s.base": true, "s.off": true, "s.len": true, "s.cap": true, "mk-iface": true, "i.type": true, "i.val": true,
	"const-array": true, "forall": true, "exists": true,
}

func isBuiltinOp(op string) bool {
	if builtinOps[op] {
		return true
	}
	if strings.HasPrefix(op, "bv") || strings.HasPrefix(op, "(_ ") {
		return true
	}
	return false
}

// relevant filters the path condition to the cone of influence of the goal.
func relevant(pc []*Term, goal *Term) []*Term {
	type info struct {
		syms map[string]bool
	}
	infos := make([]info, len(pc))
	symsOf := func(t *Term) map[string]bool {
		cs := map[string]string{}
		fs := map[string]bool{}
		t.Symbols(cs, fs)
		out := map[string]bool{}
		for k := range cs {
			out[k] = true
		}
		for k := range fs {
			if !isBuiltinOp(k) && !strings.HasPrefix(k, "mk-") {
				if _, isAcc := accessorOf[k]; !isAcc {
					out[k] = true
				}
			}
		}
		return out
	}
	for i, p := range pc {
		infos[i] = info{symsOf(p)}
	}
	live := symsOf(goal)
	used := make([]bool, len(pc))
	changed := true
	for changed {
		changed = false
		for i := range pc {
			if used[i] {
				continue
			}
			hit := len(infos[i].syms) == 0
			for s := range infos[i].syms {
				if live[s] {
					hit = true
					break
				}
			}
			if hit {
				used[i] = true
				changed = true
				for s := range infos[i].syms {
					live[s] = true
				}
			}
		}
	}
	var out []*Term
	for i, p := range pc {
		if used[i] {
			out = append(out, p)
		}
	}
	return out
}

// script builds the SMT-LIB text for an obligation.
func (v *Verifier) script(o *Oblig, getValues []string, filtered bool) string {
	return v.scriptOpt(o, getValues, filtered, false)
}

func hasQuant(t *Term) bool {
	if t.IsLit {
		return false
	}
	if t.Op == "forall" || t.Op == "exists" {
		return true
	}
	for _, a := range t.Args {
		if hasQuant(a) {
			return true
		}
	}
	return false
}

// scriptOpt: with dropQuant, quantified assumptions are left out (used only to
// find candidate counterexamples, which are then replayed on the real code).
func (v *Verifier) scriptOpt(o *Oblig, getValues []string, filtered bool, dropQuant bool) string {
	var sb strings.Builder
	sb.WriteString("(set-option :produce-models true)\n(set-logic ALL)\n")
	sb.WriteString(prelude)
	for _, s := range sortedKeys(v.d.sortsDecl) {
		fmt.Fprintf(&sb, "(declare-sort %s 0)\n", s)
	}
	for _, dt := range v.d.datatypes {
		sb.WriteString(dt + "\n")
	}
	pc := o.PC
	if !o.MustSat && filtered {
		pc = relevant(o.PC, o.Goal)
		// the first attempt leaves out the heap well-formedness axioms (they cost the
		// solvers much more than they usually help); the full attempt has them
		var keep []*Term
		for _, p := range pc {
			if !v.heapAxSet[p] {
				keep = append(keep, p)
			}
		}
		pc = keep
	}
	if !filtered && !o.MustSat && len(v.axiomSet) > 0 {
		// global axioms are included only when they share a function symbol with the rest
		var rest, axs []*Term
		for _, p := range pc {
			if v.axiomSet[p] {
				axs = append(axs, p)
			} else {
				rest = append(rest, p)
			}
		}
		used := map[string]bool{}
		collect := func(t *Term) {
			cs := map[string]string{}
			fs := map[string]bool{}
			t.Symbols(cs, fs)
			for k := range fs {
				used[k] = true
			}
			for k := range cs {
				used[k] = true
			}
		}
		for _, p := range rest {
			collect(p)
		}
		collect(o.Goal)
		pending := axs
		for changed := true; changed; {
			changed = false
			var next []*Term
			for _, a := range pending {
				cs := map[string]string{}
				fs := map[string]bool{}
				a.Symbols(cs, fs)
				hit := false
				for k := range fs {
					if strings.HasPrefix(k, "spec.") && used[k] {
						hit = true
					}
				}
				if hit {
					rest = append(rest, a)
					collect(a)
					changed = true
				} else {
					next = append(next, a)
				}
			}
			pending = next
		}
		pc = rest
	}
	if dropQuant {
		var keep []*Term
		for _, p := range pc {
			if !hasQuant(p) {
				keep = append(keep, p)
			}
		}
		pc = keep
	}
	consts := map[string]string{}
	fns := map[string]bool{}
	for _, p := range pc {
		p.Symbols(consts, fns)
	}
	o.Goal.Symbols(consts, fns)
	for _, n := range v.d.funOrder {
		if fns[n] || (consts[n] != "" && strings.HasPrefix(n, "spec.")) {
			sb.WriteString(v.d.funs[n] + "\n")
			delete(consts, n)
		}
	}
	// string literals
	usesStr := false
	for _, lit := range v.d.strOrder {
		if _, ok := consts[v.d.strLits[lit]]; ok {
			usesStr = true
		}
	}
	for _, n := range sortedKeys(consts) {
		if strings.HasPrefix(n, "mk-") { // nullary constructors
			continue
		}
		fmt.Fprintf(&sb, "(declare-const %s %s)\n", n, consts[n])
	}
	if usesStr {
		if !fns["gstr.len"] {
			if d, ok := v.d.funs["gstr.len"]; ok {
				sb.WriteString(d + "\n")
			} else {
				sb.WriteString("(declare-fun gstr.len (Str) Int)\n")
			}
		}
		var names []string
		for _, lit := range v.d.strOrder {
			n := v.d.strLits[lit]
			if _, ok := consts[n]; !ok {
				continue
			}
			names = append(names, n)
			fmt.Fprintf(&sb, "(assert (= (gstr.len %s) %d))\n", n, len(lit))
			// the bytes of a short literal are facts, not assumptions
			if fns["gstr.bytes"] && len(lit) <= 64 {
				for i := 0; i < len(lit); i++ {
					bv := fmt.Sprintf("%d", lit[i])
					if v.mode == "bv" {
						bv = fmt.Sprintf("#x%02x", lit[i])
					}
					fmt.Fprintf(&sb, "(assert (= (select (gstr.bytes %s) %d) %s))\n", n, i, bv)
				}
			}
		}
		if len(names) > 1 {
			fmt.Fprintf(&sb, "(assert (distinct %s))\n", strings.Join(names, " "))
		}
	}
	if fns["pow2"] {
		for k := 0; k <= 128; k++ {
			if k > 64 && k%8 != 0 {
				continue
			}
			fmt.Fprintf(&sb, "(assert (= (pow2 %d) %s))\n", k, Pow2(k).String())
		}
	}
	if fns["pow2"] {
		sb.WriteString("(assert (forall ((n Int)) (! (=> (>= n 0) (>= (pow2 n) 1)) :pattern ((pow2 n)))))\n")
	}
	if fns["nlmul"] {
		sb.WriteString("(assert (forall ((x Int) (y Int)) (! (= (nlmul x y) (nlmul y x)) :pattern ((nlmul x y)))))\n")
	}
	seenA := map[string]bool{}
	for _, p := range pc {
		ps := p.String()
		if seenA[ps] {
			continue
		}
		seenA[ps] = true
		sb.WriteString("(assert ")
		sb.WriteString(ps)
		sb.WriteString(")\n")
	}
	if !o.MustSat {
		sb.WriteString("(assert (not ")
		sb.WriteString(fixConstArrays(o.Goal.String()))
		sb.WriteString("))\n")
	}
	sb.WriteString("(check-sat)\n")
	if len(getValues) > 0 {
		fmt.Fprintf(&sb, "(get-value (%s))\n", strings.Join(getValues, " "))
	}
	return sb.String()
}

// const arrays are printed as (const-array v) by Term; SMT-LIB needs the sort.
// Term.write emits ((as const SORT) v) directly, so nothing to fix here.
func fixConstArrays(s string) string { return s }

var scriptSeq int64

type solverSpec struct {
	name string
	args func(file string, ms int) []string
}

var solvers = []solverSpec{
	{"z3-new", func(f string, ms int) []string { return []string{"z3-new", fmt.Sprintf("-t:%d", ms), f} }},
	{"cvc5", func(f string, ms int) []string {
		return []string{"cvc5", fmt.Sprintf("--tlimit=%d", ms), "--produce-models", "--arrays-exp", f}
	}},
	{"z3", func(f string, ms int) []string { return []string{"z3", fmt.Sprintf("-t:%d", ms), f} }},
	// a second search strategy of the newer z3 (no auto-configuration, relevancy-driven case splits)
	{"z3-new-cs", func(f string, ms int) []string {
		return []string{"z3-new", fmt.Sprintf("-t:%d", ms), "smt.auto_config=false", "smt.case_split=3", f}
	}},
}

type solveResult struct {
	verdict string
	solver  string
	ms      int64
	output  string
	outputs map[string]string
}

func runSolver(ctx context.Context, sp solverSpec, file string, ms int) (string, string) {
	args := sp.args(file, ms)
	cctx, cancel := context.WithTimeout(ctx, time.Duration(ms+2000)*time.Millisecond)
	defer cancel()
	cmd := exec.CommandContext(cctx, args[0], args[1:]...)
	var out bytes.Buffer
	cmd.Stdout = &out
	cmd.Stderr = &out
	cmd.Run()
	text := out.String()
	// skip solver warnings preceding the verdict
	for strings.HasPrefix(text, "WARNING") {
		i := strings.Index(text, "\n")
		if i < 0 {
			break
		}
		text = text[i+1:]
	}
	first := strings.TrimSpace(strings.SplitN(text, "\n", 2)[0])
	if strings.Contains(text, "(error ") && first != "unsat" && first != "sat" && first != "unknown" {
		return "error", text // malformed script (get-value errors after a verdict are harmless)
	}
	switch first {
	case "sat", "unsat", "unknown":
		return first, text
	}
	if cctx.Err() != nil {
		return "timeout", text
	}
	if strings.Contains(text, "timeout") || strings.Contains(text, "interrupted") {
		return "timeout", text
	}
	return "error", text
}

// solve runs the portfolio on one script: z3-new alone for a short budget,
// then all solvers in parallel for the full budget.
func solve(script, dir, name string, timeoutMs int, want string) solveResult {
	h := sha256.Sum256([]byte(script))
	file := filepath.Join(dir, fmt.Sprintf("%x-%d-%d.smt2", h[:8], os.Getpid(), atomic.AddInt64(&scriptSeq, 1)))
	os.WriteFile(file, []byte(script), 0o644)
	defer os.Remove(file)
	start := time.Now()
	outputs := map[string]string{}
	quick := min(timeoutMs, 1500)
	verdict, text := runSolver(context.Background(), solvers[0], file, quick)
	outputs[solvers[0].name] = trimOut(text)
	if verdict == "sat" || verdict == "unsat" {
		return solveResult{verdict, solvers[0].name, time.Since(start).Milliseconds(), text, outputs}
	}
	ctx, cancel := context.WithCancel(context.Background())
	defer cancel()
	type res struct {
		verdict, text, solver string
	}
	ch := make(chan res, len(solvers))
	for _, sp := range solvers {
		sp := sp
		go func() {
			vd, tx := runSolver(ctx, sp, file, timeoutMs)
			ch <- res{vd, tx, sp.name}
		}()
	}
	final := solveResult{verdict: "unknown", outputs: outputs}
	nerr := 0
	defer func() {
		if nerr == len(solvers) {
			fmt.Fprintf(os.Stderr, "SMT-ERROR %s: %s\n", name, firstLine(outputs["z3-new"]))
		}
	}()
	for range solvers {
		r := <-ch
		outputs[r.solver] = trimOut(r.text)
		if r.verdict == "sat" || r.verdict == "unsat" {
			cancel()
			return solveResult{r.verdict, r.solver, time.Since(start).Milliseconds(), r.text, outputs}
		}
		if r.verdict == "timeout" && final.verdict == "unknown" {
			final.verdict = "timeout"
		}
		if r.verdict == "error" {
			nerr++
		}
	}
	final.ms = time.Since(start).Milliseconds()
	return final
}

func trimOut(s string) string {
	if len(s) > 1500 {
		return s[:1500] + "…"
	}
	return s
}

// noRetryPhase: set by the selftest for its first, restricted pass (a mutant is expected to
// fail; the full pass that follows when nothing expected failed retries as usual).
var noRetryPhase bool

// dischargeAll solves all obligations in parallel.
func dischargeAll(jobs []*obJob, timeoutMs int, workers int, scratch string) {
	var wg sync.WaitGroup
	ch := make(chan *obJob)
	for w := 0; w < workers; w++ {
		wg.Add(1)
		go func() {
			defer wg.Done()
			for j := range ch {
				o := j.o
				if o.Verdict == "error" {
					continue
				}
				// 1st attempt: assumptions restricted to the goal's cone of influence
				// (dropping assumptions is sound for `unsat`); 2nd: everything.
				var r solveResult
				tried := false
				if !o.MustSat && !o.Goal.isFalse() {
					script := j.v.script(o, nil, true)
					if len(script) <= 4<<20 {
						o.Script = script
						if d := os.Getenv("GVC_DUMP1"); d != "" {
							os.MkdirAll(d, 0o755)
							os.WriteFile(filepath.Join(d, smtIdent(o.Name)+".1.smt2"), []byte(script), 0o644)
						}
						r = solve(script, scratch, o.Name, min(timeoutMs, 4000), "")
						tried = true
					}
				}
				if !tried || r.verdict != "unsat" {
					script := j.v.script(o, j.values, false)
					o.Script = script
					if len(script) > 4<<20 {
						o.Verdict = "toobig"
						continue
					}
					tmo := timeoutMs
					if o.MustSat {
						tmo = min(timeoutMs, 1500)
					}
					r2 := solve(script, scratch, o.Name, tmo, "")
					r2.ms += r.ms
					r = r2
				}
				o.Verdict, o.Solver, o.Ms, o.Model, o.Outputs = r.verdict, r.solver, r.ms, r.output, r.outputs
				if os.Getenv("GVC_PROGRESS") != "" && (o.Verdict != "unsat" || o.Ms > 2000) {
					fmt.Fprintf(os.Stderr, "progress: %s %s %dms\n", o.Verdict, o.Name, o.Ms)
				}
				if !o.MustSat && o.Verdict != "unsat" && o.Verdict != "sat" && len(j.values) > 0 && !hasQuant(o.Goal) {
					// candidate counterexample from the quantifier-free part of the assumptions
					script := j.v.scriptOpt(o, j.values, true, true)
					r3 := solve(script, scratch, o.Name, min(timeoutMs, 5000), "")
					if r3.verdict == "sat" {
						o.Model = r3.output
						o.Candidate = true
					}
				}
			}
		}()
	}
	for _, j := range jobs {
		ch <- j
	}
	close(ch)
	wg.Wait()
	// Undecided obligations (timeout / unknown) are retried one at a time on an otherwise
	// idle machine with a larger budget: a verdict must not depend on the load created by
	// the other queries.  Many undecided obligations at once indicate a real failure and
	// are not retried.
	var undecided []*obJob
	for _, j := range jobs {
		if !j.o.MustSat && (j.o.Verdict == "timeout" || j.o.Verdict == "unknown") {
			undecided = append(undecided, j)
		}
	}
	if len(undecided) > 0 && len(undecided) <= 8 && !noRetryPhase {
		for _, j := range undecided {
			o := j.o
			big := min(2*timeoutMs, 40000)
			var r solveResult
			if !o.Goal.isFalse() {
				r = solve(j.v.script(o, nil, true), scratch, o.Name+"_retry", big/2, "")
			}
			if r.verdict != "unsat" {
				r = solve(j.v.script(o, j.values, false), scratch, o.Name+"_retry", big, "")
			}
			if r.verdict == "unsat" {
				o.Verdict, o.Solver, o.Ms, o.Model, o.Outputs = r.verdict, r.solver, o.Ms+r.ms, r.output, r.outputs
				o.Retried = true
			}
		}
	}
}

type obJob struct {
	v      *Verifier
	o      *Oblig
	values []string
}

func firstLine(s string) string {
	if i := strings.Index(s, "\n"); i >= 0 {
		return s[:i]
	}
	return s
}

// entails asks the solver (short budget) whether the path condition implies g.
// Only a definite `unsat` of pc && !g counts.
func (v *Verifier) entails(s *State, g *Term) bool {
	if g.isTrue() {
		return true
	}
	if g.isFalse() || s.dead {
		return false
	}
	o := &Oblig{Name: "entails", PC: s.pc, Goal: g}
	script := v.script(o, nil, true)
	scratch := filepath.Join(verifRoot, "scratch")
	os.MkdirAll(scratch, 0o755)
	h := sha256.Sum256([]byte(script))
	file := filepath.Join(scratch, fmt.Sprintf("q%x-%d-%d.smt2", h[:6], os.Getpid(), atomic.AddInt64(&scriptSeq, 1)))
	os.WriteFile(file, []byte(script), 0o644)
	defer os.Remove(file)
	verdict, _ := runSolver(context.Background(), solvers[0], file, 400)
	v.nQueries++
	return verdict == "unsat"
}

// crossCheck re-runs the script that discharged each obligation on every solver of the
// portfolio (20 s each) and counts the obligations on which some solver answers `sat`.
func crossCheck(jobs []*obJob, workers int, scratch string) int {
	var mu sync.Mutex
	bad := 0
	var wg sync.WaitGroup
	ch := make(chan *obJob)
	for w := 0; w < workers; w++ {
		wg.Add(1)
		go func() {
			defer wg.Done()
			for j := range ch {
				o := j.o
				if o.MustSat || o.Verdict != "unsat" || o.Script == "" {
					continue
				}
				h := sha256.Sum256([]byte(o.Script))
				file := filepath.Join(scratch, fmt.Sprintf("x%x-%d-%d.smt2", h[:8], os.Getpid(), atomic.AddInt64(&scriptSeq, 1)))
				os.WriteFile(file, []byte(o.Script), 0o644)
				for _, sp := range solvers {
					if sp.name == o.Solver {
						continue
					}
					vd, _ := runSolver(context.Background(), sp, file, 20000)
					if vd == "sat" {
						mu.Lock()
						bad++
						fmt.Printf("ERROR solver disagreement on %s: %s proved unsat, %s answers sat\n", o.Name, o.Solver, sp.name)
						mu.Unlock()
					}
					if vd == "unsat" {
						mu.Lock()
						o.CrossConfirmed = append(o.CrossConfirmed, sp.name)
						mu.Unlock()
					}
				}
				os.Remove(file)
			}
		}()
	}
	for _, j := range jobs {
		ch <- j
	}
	close(ch)
	wg.Wait()
	return bad
}
