package main

import (
	"bufio"
	"encoding/json"
	"flag"
	"fmt"
	"os"
	"path/filepath"
	"runtime"
	"sort"
	"strconv"
	"strings"
	"time"

	"golang.org/x/tools/go/packages"
)

var verifRoot = "/verif"

func main() {
	if len(os.Args) < 2 {
		fmt.Fprintln(os.Stderr, "usage: gvc prove <property> [--tier quick|thorough] | list | func <pkg> <func>")
		os.Exit(2)
	}
	if r := os.Getenv("GVC_ROOT"); r != "" {
		verifRoot = r
	}
	switch os.Args[1] {
	case "prove":
		os.Exit(cmdProve(os.Args[2:]))
	case "list":
		os.Exit(cmdList())
	case "replay":
		os.Exit(cmdReplay(os.Args[2:]))
	case "selftest":
		os.Exit(cmdSelftest(os.Args[2:]))
	default:
		fmt.Fprintln(os.Stderr, "unknown command", os.Args[1])
		os.Exit(2)
	}
}

type propTarget struct {
	pkgPath string
	fc      *FuncContract
}

// scanContracts reads all contract files (without type checking) to find the
// packages and functions that serve a property.
func scanContracts() (map[string][]string, []*ContractFile, error) {
	byProp := map[string][]string{} // property -> package dirs
	var cfs []*ContractFile
	for _, f := range discoverContractFiles() {
		cf, err := loadContractFile(f, "//@")
		if err != nil {
			return nil, nil, err
		}
		cfs = append(cfs, cf)
		dir := "./" + strings.TrimPrefix(filepath.Dir(f), repoRoot+"/")
		seen := map[string]bool{}
		for _, fc := range cf.Funcs {
			for _, p := range fc.Props {
				if !seen[p] {
					seen[p] = true
					byProp[p] = append(byProp[p], dir)
				}
			}
		}
		for _, lm := range cf.Lemmas {
			for _, p := range lm.Props {
				if !seen[p] {
					seen[p] = true
					byProp[p] = append(byProp[p], dir)
				}
			}
		}
	}
	return byProp, cfs, nil
}

func cmdList() int {
	byProp, _, err := scanContracts()
	if err != nil {
		fmt.Println("ERROR", err)
		return 2
	}
	for _, p := range sortedKeys(byProp) {
		fmt.Println(p, byProp[p])
	}
	return 0
}

type KnownFinding struct {
	Status     string `json:"status"` // open | fixed
	Property   string `json:"property"`
	Obligation string `json:"obligation"`
	What       string `json:"what"`
	Commit     string `json:"commit,omitempty"`
}

func loadKnownFindings() []KnownFinding {
	var out []KnownFinding
	f, err := os.Open(filepath.Join(verifRoot, "known_findings.jsonl"))
	if err != nil {
		return nil
	}
	defer f.Close()
	sc := bufio.NewScanner(f)
	for sc.Scan() {
		ln := strings.TrimSpace(sc.Text())
		if ln == "" || strings.HasPrefix(ln, "#") {
			continue
		}
		var k KnownFinding
		if json.Unmarshal([]byte(ln), &k) == nil {
			out = append(out, k)
		}
	}
	return out
}

type proveOpts struct {
	prop, tier, only, dump string
	verbose                bool
	overlay                map[string][]byte
	quiet                  bool
	noEvidence             bool
	onlyPkg                string // selftest: restrict to the functions and lemmas of one package path
	onlyFile               string // selftest: ... and, within it, to the functions declared in this file (plus the package's ghost lemma functions)
}

type proveResult struct {
	code       int
	failed     []string // names of undischarged obligations
	nObl, nDis int
	lines      []string
}

func cmdProve(args []string) int {
	fs := flag.NewFlagSet("prove", flag.ExitOnError)
	tier := fs.String("tier", "", "quick|thorough")
	only := fs.String("only", "", "restrict to functions whose name contains this text (debugging; evidence not written)")
	dump := fs.String("dump", "", "directory to dump all SMT scripts into")
	verbose := fs.Bool("v", false, "print every obligation")
	if len(args) < 1 {
		fmt.Println("ERROR: property id required")
		return 2
	}
	prop := args[0]
	fs.Parse(args[1:])
	if *tier == "" {
		*tier = os.Getenv("VERIF_TIER")
	}
	if *tier == "" {
		*tier = "quick"
	}
	r := runProve(proveOpts{prop: prop, tier: *tier, only: *only, dump: *dump, verbose: *verbose})
	return r.code
}

func runProve(po proveOpts) (res proveResult) {
	prop := po.prop
	tier, only, dump, verbose := &po.tier, &po.only, &po.dump, &po.verbose
	fail := func(format string, a ...any) proveResult {
		msg := fmt.Sprintf(format, a...)
		if !po.quiet {
			fmt.Println(msg)
		}
		return proveResult{code: 2, lines: []string{msg}}
	}
	if os.Getenv("GVC_NO_EVIDENCE") != "" {
		// runs against a deliberately changed tree (seeded changes) must not overwrite the
		// evidence of the unchanged tree
		po.noEvidence = true
	}
	seed, _ := strconv.Atoi(os.Getenv("VERIF_SEED"))
	start := time.Now()
	evPath := filepath.Join(verifRoot, "evidence", prop+".json")
	if *only == "" && !po.noEvidence {
		os.Remove(evPath)
	}

	byProp, _, err := scanContracts()
	if err != nil {
		return fail("ERROR: contract files: %v", err)
	}
	dirs := byProp[prop]
	if len(dirs) == 0 {
		return fail("ERROR: no contracts serve property %s", prop)
	}
	eng := newEngine(verifRoot)
	eng.overlay = po.overlay
	if err := eng.loadSpecs(); err != nil {
		return fail("ERROR: specs: %v", err)
	}
	if err := eng.load(dirs); err != nil {
		return fail("ERROR: loading packages: %v", err)
	}
	loadS := time.Since(start).Seconds()

	onlyProps := map[string]bool{prop: true}
	// targets
	var verifiers []*Verifier
	type target struct {
		p  *packages.Package
		fc *FuncContract
	}
	var targets []target
	for _, key := range sortedKeys(eng.contracts) {
		fc := eng.contracts[key]
		if !hasProp(fc.Props, prop) {
			continue
		}
		if *only != "" && !strings.Contains(fc.Key(), *only) {
			continue
		}
		if po.onlyPkg != "" && fc.PkgPath != po.onlyPkg {
			continue
		}
		p := eng.pkgs[fc.PkgPath]
		if p == nil || !strings.HasPrefix(fc.PkgPath, repoModule) || fc.Flags["assumed"] || fc.Flags["trusted"] {
			continue
		}
		if po.onlyFile != "" {
			if d, _ := eng.findFunc(p, fc); d != nil {
				fn := eng.fset.Position(d.Pos()).Filename
				if fn != po.onlyFile && !strings.Contains(filepath.Base(fn), "zz_verif_") {
					continue
				}
			}
		}
		targets = append(targets, target{p, fc})
	}
	var anyPkg *packages.Package
	for _, t := range targets {
		anyPkg = t.p
		break
	}
	results := make([]*Verifier, len(targets))
	sem := make(chan struct{}, 1) // go/types objects are shared: generate sequentially
	for i, t := range targets {
		sem <- struct{}{}
		results[i] = eng.verifyFunc(t.p, t.fc, onlyProps)
		<-sem
	}
	verifiers = append(verifiers, results...)
	for _, lm := range eng.lemmaList {
		if !hasProp(lm.Props, prop) {
			continue
		}
		if *only != "" && !strings.Contains(lm.Name, *only) {
			continue
		}
		if po.onlyPkg != "" && lm.PkgPath != po.onlyPkg {
			continue
		}
		p := eng.pkgs[lm.PkgPath]
		if p == nil {
			p = anyPkg
		}
		verifiers = append(verifiers, eng.verifyLemma(lm, p))
	}
	genS := time.Since(start).Seconds() - loadS

	timeout := 10000
	if *tier == "thorough" {
		timeout = 120000
	}
	if t := os.Getenv("GVC_TIMEOUT_MS"); t != "" {
		timeout, _ = strconv.Atoi(t)
	}
	scratch := filepath.Join(verifRoot, "scratch")
	os.MkdirAll(scratch, 0o755)
	var jobs []*obJob
	for _, v := range verifiers {
		// feasibility of return paths is sampled per return statement (first and last path
		// reaching it): it guards against a verification that is vacuous because the path
		// condition of the paths through some return statement is contradictory
		byPos := map[string][]*Oblig{}
		for _, o := range v.obligs {
			if o.Class == "vacuity-path" {
				byPos[o.Pos] = append(byPos[o.Pos], o)
			}
		}
		keep := map[*Oblig]bool{}
		for _, ps := range byPos {
			keep[ps[0]] = true
			keep[ps[len(ps)-1]] = true
			if *tier == "thorough" {
				for _, o := range ps {
					keep[o] = true // thorough: every return path is checked for feasibility
				}
			}
		}
		var kept []*Oblig
		for _, o := range v.obligs {
			if o.Class != "vacuity-path" || keep[o] {
				kept = append(kept, o)
			}
		}
		v.obligs = kept
		for _, o := range v.obligs {
			jobs = append(jobs, &obJob{v: v, o: o, values: v.modelSymbolsOf(o)})
		}
	}
	workers := runtime.NumCPU() / 2
	if workers < 2 {
		workers = 2
	}
	dischargeAll(jobs, timeout, workers, scratch)
	crossDisagree := 0
	if *tier == "thorough" {
		// cross-solver pass: every discharged obligation is re-run on the other solvers;
		// a solver that answers `sat` where another proved `unsat` is a tool error
		crossDisagree = crossCheck(jobs, workers, scratch)
	}
	if *dump != "" {
		os.MkdirAll(*dump, 0o755)
		for _, j := range jobs {
			os.WriteFile(filepath.Join(*dump, smtIdent(j.o.Name)+".smt2"), []byte(j.o.Script), 0o644)
		}
	}

	// classify
	known := loadKnownFindings()
	nObl, nDis, nViol := 0, 0, 0
	var lines []string
	solverMs := map[string]int64{}
	var samples []map[string]any
	var funcsEv []map[string]any
	trusted := map[string]bool{}
	assumptions := map[string]bool{
		"partial correctness: termination is proved only for loops with a decreases clause":            true,
		"sequential execution of each function under contract (no interleaving with other goroutines)": true,
		"functions outside /repo behave as their trusted contracts in /verif/specs/stdlib.gvc state":   true,
	}
	toolErrors := 0
	vacuityBad := 0
	retried := []string{}
	crossConfirmed := 0
	replayDir := filepath.Join(verifRoot, "replay", prop)
	for _, v := range verifiers {
		fe := map[string]any{"function": v.fnName, "mode": v.mode}
		var obNames []string
		fOb, fDis := 0, 0
		npath, npathUnsat := 0, 0
		for _, o := range v.obligs {
			if o.Class == "vacuity-path" {
				npath++
				if o.Verdict == "unsat" {
					npathUnsat++
				}
			}
		}
		if npath > 0 && npath == npathUnsat {
			vacuityBad++
			lines = append(lines, fmt.Sprintf("ERROR vacuous verification: every return path of %s has an unsatisfiable path condition", v.fnName))
		}
		fe["return_paths"] = npath
		fe["return_paths_infeasible"] = npathUnsat
		// return statements none of whose sampled paths is feasible
		{
			feas := map[string]bool{}
			seen := map[string]bool{}
			succ := map[string]bool{}
			for _, o := range v.obligs {
				if o.Class == "vacuity-path" {
					seen[o.Pos] = true
					if !o.ErrRet {
						succ[o.Pos] = true
					}
					if o.Verdict != "unsat" {
						feas[o.Pos] = true
					}
				}
			}
			var deadRets []string
			for p := range seen {
				if !feas[p] {
					deadRets = append(deadRets, p)
					if succ[p] {
						// a non-error return none of whose paths is feasible: the contract (or the
						// model) contradicts itself on the way there, and whatever was proved
						// about that path is vacuous
						vacuityBad++
						lines = append(lines, fmt.Sprintf("ERROR vacuous verification: no feasible path through the non-error return statement at %s of %s", p, v.fnName))
					}
				}
			}
			sort.Strings(deadRets)
			if len(deadRets) > 0 {
				fe["dead_return_statements"] = deadRets
				if *verbose {
					fmt.Printf("  NOTE %s: no feasible sampled path through return statement(s) %v\n", v.fnName, deadRets)
				}
			}
		}
		for _, o := range v.obligs {
			if o.Class == "vacuity-path" {
				if *verbose {
					fmt.Printf("  %-8s %-7s %6dms %s  [%s] %s\n", o.Verdict, o.Solver, o.Ms, o.Name, o.Pos, o.Desc)
				}
				continue
			}
			if o.Class == "vacuity" {
				if o.Verdict == "unsat" {
					vacuityBad++
					lines = append(lines, fmt.Sprintf("ERROR vacuous contract: %s (precondition unsatisfiable)", o.Name))
				}
				continue
			}
			nObl++
			fOb++
			obNames = append(obNames, o.Name)
			solverMs[o.Solver] += o.Ms
			ok := o.Verdict == "unsat"
			if *verbose {
				fmt.Printf("  %-8s %-7s %6dms %s  [%s] %s\n", o.Verdict, o.Solver, o.Ms, o.Name, o.Pos, o.Desc)
			}
			if ok {
				nDis++
				fDis++
				if len(o.CrossConfirmed) > 0 {
					crossConfirmed++
				}
				if o.Retried {
					retried = append(retried, o.Name)
					if *verbose {
						fmt.Printf("  NOTE %s was discharged only in the sequential retry (larger budget)\n", o.Name)
					}
				}
				if len(samples) < 6 && o.Class != "nopanic" {
					samples = append(samples, map[string]any{"obligation": o.Name, "class": o.Class, "at": o.Pos, "statement": o.Desc, "assumptions_in_path": len(o.PC), "script_bytes": len(o.Script), "verdict": o.Verdict, "solver": o.Solver, "ms": o.Ms})
				}
				continue
			}
			// not discharged
			if kf := matchKnown(known, prop, o.Name); kf != nil {
				lines = append(lines, fmt.Sprintf("KNOWN-FINDING: property=%s %s (%s)", prop, kf.What, o.Name))
				nObl--
				fOb--
				continue
			}
			nViol++
			res.failed = append(res.failed, o.Name)
			if po.noEvidence {
				lines = append(lines, fmt.Sprintf("VIOLATION property=%s obligation=%s verdict=%s at=%s (%s)", prop, o.Name, o.Verdict, o.Pos, o.Desc))
				continue
			}
			rp := writeReplay(replayDir, prop, v, o)
			suffix := ""
			if !o.replayed {
				suffix = " no-failing-input-found"
			}
			lines = append(lines, fmt.Sprintf("VIOLATION property=%s replay=%s obligation=%s verdict=%s at=%s%s", prop, rp, o.Name, o.Verdict, o.Pos, suffix))
		}
		fe["obligations"] = fOb
		fe["discharged"] = fDis
		fe["obligation_ids"] = obNames
		fe["contract_file"] = strings.TrimPrefix(v.fc.File, "/repo/")
		funcsEv = append(funcsEv, fe)
		for k := range v.trusted {
			trusted["trusted contract: "+k] = true
		}
		for k := range v.unspec {
			assumptions["unspecified callee (havoc of all memory, arbitrary results): "+k] = true
		}
		for k := range v.inlined {
			assumptions["callee body inlined (not abstracted by a contract): "+k] = true
		}
		for k := range v.assumed {
			assumptions[k] = true
		}
		for _, n := range v.notes {
			assumptions["note: "+n] = true
		}
		for k := range v.specUsed {
			trusted["uninterpreted/opaque spec function: "+k] = true
		}
	}
	res.lines = lines
	res.nObl, res.nDis = nObl, nDis
	wall := time.Since(start).Seconds()
	if !po.quiet {
		for _, l := range lines {
			fmt.Println(l)
		}
		fmt.Printf("gvc %s tier=%s: %d functions, %d obligations, %d discharged, %d violations (load %.1fs, vcgen %.1fs, total %.1fs)\n", prop, *tier, len(verifiers), nObl, nDis, nViol, loadS, genS, wall)
	}
	if *only != "" || po.noEvidence {
		if nViol > 0 {
			res.code = 1
		}
		if vacuityBad > 0 {
			res.code = 2
		}
		return res
	}
	if crossDisagree > 0 {
		toolErrors += crossDisagree
	}
	if nObl == 0 || vacuityBad > 0 || toolErrors > 0 {
		return fail("ERROR: no obligations generated or vacuous contracts")
	}
	floor := obligationFloor(prop)
	if nObl < floor {
		return fail("ERROR: %d obligations generated, floor for %s is %d", nObl, prop, floor)
	}
	tb := []string{"gvc VC generator (/verif/engine): Go semantics model, SMT encodings", "SMT solvers z3 5.1.0 / z3 4.8.12 / cvc5 1.0.3", "Go compiler and runtime implement the modelled semantics; len <= cap <= 2^48"}
	tb = append(tb, sortedProps(trusted)...)
	ev := map[string]any{
		"property_id": prop, "tier": *tier, "seed": seed, "level": "proof",
		"coverage": map[string]any{
			"obligations": nObl, "discharged": nDis,
			"checker_cmd":              fmt.Sprintf("./check prove %s --tier %s", prop, *tier),
			"trusted_base":             tb,
			"samples":                  samples,
			"functions_under_contract": funcsEv,
			"solver_ms":                solverMs,
			"discharged_only_in_retry": retried,
			"cross_confirmed_by_second_solver": crossConfirmed,
			"backends": "z3-new 5.1.0 first (1.5 s), then z3-new (two strategies), cvc5 1.0.3, z3 4.8.12 raced; first definite answer wins; undecided obligations retried alone with twice the budget",
			"timeout_ms":               timeout,
			"explanation":              "every obligation is generated from /repo's current source by symbolic execution of the real function bodies against the contracts in zz_verif_contracts.go; callees are replaced by their contracts",
			"bounded":                  []string{},
		},
		"assumptions": sortedProps(assumptions),
		"wall_s":      wall,
		"violations":  nViol,
	}
	os.MkdirAll(filepath.Dir(evPath), 0o755)
	b, _ := json.MarshalIndent(ev, "", " ")
	os.WriteFile(evPath, b, 0o644)
	if nViol > 0 {
		res.code = 1
	}
	return res
}

func hasProp(ps []string, p string) bool {
	for _, x := range ps {
		if x == p {
			return true
		}
	}
	return false
}

func matchKnown(known []KnownFinding, prop, obl string) *KnownFinding {
	for i := range known {
		k := &known[i]
		if k.Status == "open" && k.Property == prop && k.Obligation == obl {
			return k
		}
	}
	return nil
}

func obligationFloor(prop string) int {
	b, err := os.ReadFile(filepath.Join(verifRoot, "floors.json"))
	if err != nil {
		return 1
	}
	m := map[string]int{}
	json.Unmarshal(b, &m)
	if n, ok := m[prop]; ok {
		return n
	}
	return 1
}

// modelSymbols: the symbols whose values are requested from the solver on sat.
func (v *Verifier) modelSymbolsOf(o *Oblig) []string {
	var out []string
	pin := o.paramIn
	if pin == nil {
		pin = v.paramIn
	}
	for _, t := range pin {
		if len(t.Args) == 0 && !t.IsLit {
			switch {
			case t.Sort == SInt, t.Sort == SBool, strings.HasPrefix(t.Sort, "(_ BitVec"):
				out = append(out, t.Op)
			case t.Sort == SSlice:
				out = append(out, fmt.Sprintf("(s.len %s)", t.Op), fmt.Sprintf("(s.cap %s)", t.Op), fmt.Sprintf("(s.off %s)", t.Op))
			}
		}
	}
	sort.Strings(out)
	return out
}

func writeReplay(dir, prop string, v *Verifier, o *Oblig) string {
	os.MkdirAll(dir, 0o755)
	path := filepath.Join(dir, smtIdent(o.Name)+".json")
	rec := map[string]any{
		"property": prop, "obligation": o.Name, "class": o.Class, "function": o.Func, "at": o.Pos, "statement": o.Desc,
		"verdict": o.Verdict, "solver": o.Solver, "solver_outputs": o.Outputs, "mode": o.Mode,
	}
	if o.Verdict == "sat" || o.Candidate {
		rec["model"] = o.Model
		if o.Candidate {
			rec["model_note"] = "candidate model of the quantifier-free part of the assumptions; confirmed only if the replay below reproduces it"
		}
		tryReplay(v, o, rec)
	}
	if !o.replayed {
		rec["replay"] = "no-failing-input-found"
	}
	b, _ := json.MarshalIndent(rec, "", " ")
	os.WriteFile(path, b, 0o644)
	if o.Script != "" {
		os.WriteFile(strings.TrimSuffix(path, ".json")+".smt2", []byte(o.Script), 0o644)
	}
	return path
}

func cmdReplay(args []string) int {
	if len(args) < 1 {
		fmt.Println("usage: gvc replay <file.json>")
		return 2
	}
	b, err := os.ReadFile(args[0])
	if err != nil {
		fmt.Println(err)
		return 2
	}
	fmt.Println(string(b))
	return 0
}
