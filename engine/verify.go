package main

// Function-level driver: entry state, requires, body, ensures, frame.

import (
	"os"
	"fmt"
	"go/ast"
	"go/constant"
	"go/token"
	"go/types"
	"sort"
	"strings"

	"golang.org/x/tools/go/packages"
)

func numberLoops(body ast.Node) map[ast.Node]int {
	m := map[ast.Node]int{}
	if body == nil {
		return m
	}
	n := 0
	ast.Inspect(body, func(x ast.Node) bool {
		switch x.(type) {
		case *ast.ForStmt, *ast.RangeStmt:
			n++
			m[x] = n
		}
		return true
	})
	return m
}

// scanBoxed marks local variables whose address is taken (explicitly, by
// slicing an array, or by a pointer-receiver method call).
func (v *Verifier) scanBoxed(body ast.Node, info *types.Info) {
	if body == nil || v.scanned[body] {
		return
	}
	v.scanned[body] = true
	mark := func(e ast.Expr) {
		for {
			switch x := ast.Unparen(e).(type) {
			case *ast.Ident:
				if o, ok := info.ObjectOf(x).(*types.Var); ok && o.Pkg() != nil && o.Parent() != o.Pkg().Scope() && !o.IsField() {
					v.boxed[o] = true
				}
				return
			case *ast.SelectorExpr:
				// &x.f or x.f[:] where x is a struct value: box x
				if sel := info.Selections[x]; sel != nil && sel.Kind() == types.FieldVal {
					if _, isPtr := sel.Recv().Underlying().(*types.Pointer); isPtr {
						return
					}
					e = x.X
					continue
				}
				return
			case *ast.IndexExpr:
				if _, isArr := info.TypeOf(x.X).Underlying().(*types.Array); isArr {
					e = x.X
					continue
				}
				return
			default:
				return
			}
		}
	}
	assigns := map[*types.Var][]ast.Expr{}
	defs := map[*types.Var][]ast.Expr{} // every value ever given to the variable, including its definition
	ast.Inspect(body, func(n ast.Node) bool {
		switch x := n.(type) {
		case *ast.UnaryExpr:
			if x.Op == token.AND {
				if _, isLit := ast.Unparen(x.X).(*ast.CompositeLit); !isLit {
					mark(x.X)
				}
			}
		case *ast.SliceExpr:
			if t := info.TypeOf(x.X); t != nil {
				if _, isArr := t.Underlying().(*types.Array); isArr {
					mark(x.X)
				}
			}
		case *ast.CallExpr:
			if sel, ok := ast.Unparen(x.Fun).(*ast.SelectorExpr); ok {
				if s := info.Selections[sel]; s != nil && s.Kind() == types.MethodVal {
					if fn, ok := s.Obj().(*types.Func); ok {
						sig := fn.Type().(*types.Signature)
						if sig.Recv() != nil {
							_, wantPtr := sig.Recv().Type().Underlying().(*types.Pointer)
							_, havePtr := s.Recv().Underlying().(*types.Pointer)
							_, isIface := s.Recv().Underlying().(*types.Interface)
							if wantPtr && !havePtr && !isIface {
								mark(sel.X)
							}
						}
					}
				}
			}
		case *ast.AssignStmt:
			if len(x.Lhs) == len(x.Rhs) {
				for i, l := range x.Lhs {
					if id, ok := l.(*ast.Ident); ok {
						if o, ok := info.ObjectOf(id).(*types.Var); ok {
							defs[o] = append(defs[o], x.Rhs[i])
							if x.Tok == token.DEFINE && info.Defs[id] != nil {
								continue
							}
							assigns[o] = append(assigns[o], x.Rhs[i])
						}
					}
				}
			} else {
				for _, l := range x.Lhs {
					if id, ok := l.(*ast.Ident); ok {
						if o, ok := info.ObjectOf(id).(*types.Var); ok {
							defs[o] = append(defs[o], nil)
							if !(x.Tok == token.DEFINE && info.Defs[id] != nil) {
								assigns[o] = append(assigns[o], nil)
							}
						}
					}
				}
			}
		}
		return true
	})
	for o, rhss := range assigns {
		only := true
		for _, r := range rhss {
			se, ok := r.(*ast.SliceExpr)
			if !ok {
				only = false
				break
			}
			id, ok := ast.Unparen(se.X).(*ast.Ident)
			if !ok || info.ObjectOf(id) != o {
				only = false
				break
			}
		}
		v.reslicedOnly[o] = only
	}
	// freshLocal: every value the variable ever holds is a fresh allocation made at that point
	for o, rhss := range defs {
		all := len(rhss) > 0
		for _, r := range rhss {
			if r == nil {
				all = false
				break
			}
			switch x := ast.Unparen(r).(type) {
			case *ast.CallExpr:
				id, ok := ast.Unparen(x.Fun).(*ast.Ident)
				if !ok || (id.Name != "make" && id.Name != "new") {
					all = false
				} else if _, isB := info.ObjectOf(id).(*types.Builtin); !isB {
					all = false
				}
			case *ast.CompositeLit:
			case *ast.UnaryExpr:
				if _, isLit := ast.Unparen(x.X).(*ast.CompositeLit); !(x.Op == token.AND && isLit) {
					all = false
				}
			default:
				all = false
			}
			if !all {
				break
			}
		}
		if all {
			v.freshLocal[o] = true
		}
	}
	// sliceRoot: o only ever holds sub-slices of one other slice variable (or of itself)
	for o, rhss := range defs {
		if _, isSl := o.Type().Underlying().(*types.Slice); !isSl {
			continue
		}
		var root *types.Var
		ok := true
		for _, r := range rhss {
			se, isSlice := r.(*ast.SliceExpr)
			if !isSlice {
				ok = false
				break
			}
			id, isId := ast.Unparen(se.X).(*ast.Ident)
			if !isId {
				ok = false
				break
			}
			ro, isVar := info.ObjectOf(id).(*types.Var)
			if !isVar {
				ok = false
				break
			}
			if ro == o {
				continue
			}
			if root != nil && root != ro {
				ok = false
				break
			}
			root = ro
		}
		if ok && root != nil {
			v.sliceRoot[o] = root
		}
	}
}

// evalTable evaluates the initialiser of an immutable package-level table.
func (v *Verifier) evalTable(o *types.Var, init ast.Expr) *Term {
	p := v.eng.globPkg[o]
	cl, ok := init.(*ast.CompositeLit)
	if !ok || p == nil {
		return nil
	}
	at, ok := o.Type().Underlying().(*types.Array)
	if !ok {
		return nil
	}
	es := v.sortOf(at.Elem())
	arr := ConstArray(SArr(SInt, es), v.zeroOf(at.Elem()))
	idx := int64(0)
	for _, el := range cl.Elts {
		val := el
		if kv, ok := el.(*ast.KeyValueExpr); ok {
			tv := p.TypesInfo.Types[kv.Key]
			if tv.Value == nil {
				return nil
			}
			idx, _ = constant.Int64Val(tv.Value)
			val = kv.Value
		}
		tv := p.TypesInfo.Types[val]
		if tv.Value == nil {
			return nil
		}
		arr = Store(arr, IntLit(idx), v.constTerm(tv.Value, at.Elem()))
		idx++
	}
	return arr
}

func (v *Verifier) localEnv(s *State, lp *loopParts) *CEnv {
	env := v.newEnv(v.pkg.Types)
	env.scope = lp.scope
	env.hidden = lp.hidden
	env.st, env.old = s, v.entry
	// contract header names denote entry values under old(); plain names are locals
	for k, val := range v.paramIn {
		if _, clash := env.vars[k]; !clash {
			_ = val
		}
	}
	return env
}

func newVerifier(e *Engine, p *packages.Package, fc *FuncContract) *Verifier {
	v := &Verifier{eng: e, pkg: p, info: p.TypesInfo, fc: fc, d: newDeclSet(), mode: "int",
		boxed: map[types.Object]bool{}, paramIn: map[string]*Term{}, paramTy: map[string]types.Type{},
		counter: map[string]int{}, trusted: map[string]bool{}, unspec: map[string]bool{}, inlined: map[string]bool{}, assumed: map[string]bool{},
		windows: map[string]*winInfo{}, lits: map[int]litInfo{}, heapSorts: map[string]string{}, scanned: map[ast.Node]bool{},
		reslicedOnly: map[*types.Var]bool{}, globalsWritten: map[string]bool{}, pendingHavoc: map[string]bool{}, specUsed: map[string]bool{},
		lemmasUsed: map[string]bool{}, normDone: map[string]bool{}, pathCap: 2000, refRank: map[string]int{}, allocRank: map[string]int{}, axiomSet: map[*Term]bool{}, heapAxDone: map[string]bool{}, sliceRoot: map[*types.Var]*types.Var{}, freshLocal: map[*types.Var]bool{}, heapAxOf: map[string]*Term{}, heapAxSet: map[*Term]bool{}}
	if fc != nil && fc.Mode != "" {
		v.mode = fc.Mode
	}
	if fc != nil {
		for f := range fc.Flags {
			if strings.HasPrefix(f, "pathcap:") {
				fmt.Sscanf(f, "pathcap:%d", &v.pathCap)
			}
		}
	}
	return v
}

// verifyFunc generates all obligations of one function under contract.
func (e *Engine) verifyFunc(p *packages.Package, fc *FuncContract, onlyProps map[string]bool) (v *Verifier) {
	v = newVerifier(e, p, fc)
	v.fnName = p.Types.Name() + "." + fc.Key()
	defer func() {
		if r := recover(); r != nil {
			if se, ok := r.(subsetError); ok {
				v.obligs = append(v.obligs, &Oblig{Name: v.fnName + "#subset", Class: "subset", Func: v.fnName, Goal: TFalse, Desc: "out of supported subset: " + se.msg, Verdict: "error", Props: fc.Props})
				return
			}
			panic(r)
		}
	}()
	decl, fn := e.findFunc(p, fc)
	if decl == nil {
		unsupported("function %s not found in package %s", fc.Key(), p.PkgPath)
	}
	body := decl.Body
	var lit *ast.FuncLit
	if fc.IsLit > 0 {
		k := 0
		ast.Inspect(decl.Body, func(n ast.Node) bool {
			if fl, ok := n.(*ast.FuncLit); ok {
				k++
				if k == fc.IsLit {
					lit = fl
				}
			}
			return true
		})
		if lit == nil {
			unsupported("function literal %d not found in %s", fc.IsLit, fc.Key())
		}
		body = lit.Body
	}
	v.decl = decl
	v.body = body
	v.sig = fn.Type().(*types.Signature)
	if lit != nil {
		v.sig = v.info.TypeOf(lit).(*types.Signature)
	}
	v.loopOrd = numberLoops(body)
	v.scanBoxed(body, v.info)
	v.curProps = fc.Props
	cases := fc.clauses("cases")
	for _, c := range fc.Clauses {
		c.hit = false
	}
	defer v.checkAssertMarkers()
	if len(cases) == 0 {
		v.runCase(p, fc, decl, body, lit, onlyProps, nil, "")
		return v
	}
	// case split on parameter values: the body is verified once per case with
	// the parameter replaced by the constant; coverage is its own obligation
	var all []*CExpr
	for _, c := range cases {
		all = append(all, c.Args...)
	}
	v.runCase(p, fc, decl, body, lit, onlyProps, all, "cover")
	for k, c := range all {
		v.runCase(p, fc, decl, body, lit, onlyProps, []*CExpr{c}, fmt.Sprintf("case%d", k+1))
	}
	return v
}

func (v *Verifier) runCase(p *packages.Package, fc *FuncContract, decl *ast.FuncDecl, body *ast.BlockStmt, lit *ast.FuncLit, onlyProps map[string]bool, caseExprs []*CExpr, caseLabel string) {
	e := v.eng
	v.caseLabel = caseLabel
	v.paramIn = map[string]*Term{}
	v.params = nil
	v.results = nil
	override := map[string]*CExpr{}
	lenOverride := map[string]*CExpr{}
	var caseCond *CExpr // general case: an arbitrary condition assumed after the precondition
	if caseLabel != "" && caseLabel != "cover" {
		c := caseExprs[0]
		isLen := c.Kind == "bin" && c.Op == "==" && c.X.Kind == "call" && c.X.X.Kind == "ident" && c.X.X.Name == "len" && len(c.X.Args) == 1 && c.X.Args[0].Kind == "ident"
		switch {
		case isLen:
			lenOverride[c.X.Args[0].Name] = c.Y
		case c.Kind == "bin" && c.Op == "==" && c.X.Kind == "ident" && isConstCExpr(c.Y):
			override[c.X.Name] = c.Y
		default:
			caseCond = c
		}
	}
	_ = e

	s := &State{vars: map[types.Object]*Term{}, heaps: map[string]*Term{}, ghost: map[string]*Term{}, locks: map[string]bool{}}
	s.alloc = Const("alloc@0", SInt)
	s.rewrite = v.reindexTerm
	v.allocRank[s.alloc.String()] = 0
	s.assume(Ge(s.alloc, IntLit(1)))
	v.entry = &State{vars: map[types.Object]*Term{}, heaps: map[string]*Term{}, alloc: s.alloc, ghost: map[string]*Term{}, locks: map[string]bool{}}

	env := v.newEnv(p.Types)
	// receiver and parameters
	bindParam := func(o *types.Var, cname string) {
		if o == nil {
			return
		}
		val := v.symbolic(s, "in_"+o.Name(), o.Type())
		if ov, ok := override[cname]; ok && cname != "" {
			val = env.at(s, s).coerceTo(env.at(s, s).tr(ov), o.Type()).T
		}
		if ov, ok := lenOverride[cname]; ok && cname != "" {
			n := env.at(s, s).intOf(env.at(s, s).tr(ov))
			s.assume(Eq(SLen(val), n))
			val = MkSlice(SBase(val), SOff(val), n, SCap(val))
		}
		v.entry.vars[o] = val
		if cname != "" {
			env.vars[cname] = CVal{val, o.Type()}
			v.paramIn[cname] = val
			v.paramTy[cname] = o.Type()
		}
		v.params = append(v.params, o)
		v.declareVar(s, o, val)
	}
	var ftype *ast.FuncType
	if lit != nil {
		ftype = lit.Type
		// free variables of the literal: symbolic values for every captured variable
		v.bindCaptured(s, lit)
	} else {
		ftype = decl.Type
		if decl.Recv != nil && len(decl.Recv.List) > 0 {
			var o *types.Var
			if len(decl.Recv.List[0].Names) > 0 {
				o, _ = v.info.Defs[decl.Recv.List[0].Names[0]].(*types.Var)
			}
			if o != nil {
				bindParam(o, fc.RecvName)
				v.recv = o
			} else if fc.RecvName != "" {
				rv := v.sig.Recv()
				val := v.symbolic(s, "in_recv", rv.Type())
				env.vars[fc.RecvName] = CVal{val, rv.Type()}
				v.paramIn[fc.RecvName] = val
			}
		}
	}
	i := 0
	for _, f := range ftype.Params.List {
		if len(f.Names) == 0 {
			i++
			continue
		}
		for _, n := range f.Names {
			o, _ := v.info.Defs[n].(*types.Var)
			cname := ""
			if i < len(fc.Params) {
				cname = fc.Params[i].Name
			}
			if o != nil {
				bindParam(o, cname)
			} else if cname != "" { // parameter named _
				pt := v.sig.Params().At(i).Type()
				val := v.symbolic(s, "in_"+cname, pt)
				env.vars[cname] = CVal{val, pt}
				v.paramIn[cname] = val
			}
			i++
		}
	}
	if len(fc.Params) != v.sig.Params().Len() {
		unsupported("contract header of %s has %d parameters, function has %d", fc.Key(), len(fc.Params), v.sig.Params().Len())
	}
	// entry snapshot of variable values for old()
	for o, t := range s.vars {
		if _, ok := v.entry.vars[o]; !ok {
			v.entry.vars[o] = t
		}
	}
	// results
	if v.sig.Results().Len() != len(fc.Results) && len(fc.Results) != 0 {
		unsupported("contract header of %s has %d results, function has %d", fc.Key(), len(fc.Results), v.sig.Results().Len())
	}
	if ftype.Results != nil {
		k := 0
		for _, f := range ftype.Results.List {
			if len(f.Names) == 0 {
				v.results = append(v.results, v.sig.Results().At(k))
				k++
				continue
			}
			for _, n := range f.Names {
				o, _ := v.info.Defs[n].(*types.Var)
				if o == nil {
					o = v.sig.Results().At(k)
				}
				v.results = append(v.results, o)
				v.declareVar(s, o, v.zeroOf(o.Type()))
				k++
			}
		}
	}
	// global axioms (trusted laws of library functions); those that mention
	// types of packages not loaded for this property are skipped
	for _, ax := range e.axioms {
		v.assumeAxiom(s, env, ax)
	}
	// the case condition first: values it fixes turn products in the precondition into
	// linear terms
	if caseCond != nil {
		s.assume(env.at(s, s).trBool(caseCond))
	}
	// requires
	for _, c := range fc.clauses("requires") {
		s.assume(env.at(s, s).trBool(c.Expr))
	}
	for _, c := range fc.clauses("assume") {
		s.assume(env.at(s, s).trBool(c.Expr))
		v.assumed["assume in "+v.fnName+": "+c.Text] = true
	}
	for _, c := range fc.Clauses {
		if c.Loop == 0 && c.Kind == "unfold" && c.Where == "" {
			v.applyUnfold(s, env.at(s, s), c)
		}
		if c.Loop == 0 && c.Kind == "use" && c.Where == "" {
			v.applyUse(s, env.at(s, s), c, decl.Pos())
		}
	}
	if caseLabel == "cover" {
		var cs []*Term
		for _, c := range caseExprs {
			cs = append(cs, env.at(s, s).trBool(c))
		}
		v.oblige(s, "cases", "cover", Or(cs...), decl.Pos(), "the case split covers the precondition")
		return
	}
	// vacuity: the precondition must be satisfiable
	v.obligs = append(v.obligs, &Oblig{Name: v.fnName + "#vacuity:requires" + v.caseSuffix(), Class: "vacuity", Func: v.fnName, PC: append([]*Term(nil), s.pc...), Goal: TFalse, MustSat: true, Desc: "precondition and type invariants are satisfiable", Mode: v.mode, Props: fc.Props})

	if fc.Flags["trusted"] || fc.Flags["assumed"] {
		return
	}
	// freeze the entry heaps: snapshot so that old() sees entry values
	flows := v.execBlock(s, body.List)
	nret := 0
	for _, f := range flows {
		if f.St.dead {
			continue
		}
		switch f.Kind {
		case flowNormal:
			if v.sig.Results().Len() > 0 {
				// falls off the end: only legal if unreachable
				v.oblige(f.St, "nopanic", "missing-return", TFalse, body.End(), "function end reachable without return")
				continue
			}
		case flowReturn:
		default:
			unsupported("break/continue escapes function body")
		}
		st := f.St
		nret++
		v.obligs = append(v.obligs, &Oblig{Name: fmt.Sprintf("%s#vacuity:path%d%s", v.fnName, nret, v.caseSuffix()), Class: "vacuity-path", Func: v.fnName, PC: append([]*Term(nil), st.pc...), Goal: TFalse, MustSat: true, Desc: "return path is feasible", Mode: v.mode, Props: fc.Props, Pos: v.pos(f.Pos), ErrRet: f.ErrRet})
		// deferred calls
		if len(st.defers) > 0 {
			// results must be visible to deferred closures through named results only: not modelled
			v.runDefers(st)
		}
		for k, sn := range st.snaps {
			v.oblige(st, "subset", fmt.Sprintf("interior-pointer.%d", k+1), And(Eq(v.loadPtr(st, sn.ref, sn.t), sn.val), Eq(v.eval(st, sn.expr), sn.val)), sn.pos, "the struct field whose address was taken (modelled as a copy) is not written through either name")
		}
		renv := env.at(st, v.entry)
		renv = renv.bind("__dummy", CVal{TTrue, nil})
		for k, r := range fc.Results {
			if k < len(f.Ret) {
				renv.vars[r.Name] = CVal{f.Ret[k], v.sig.Results().At(k).Type()}
			}
		}
		for k, c := range fc.clauses("ensures") {
			if !propsMatch(c.Props, onlyProps) {
				continue
			}
			save := v.curProps
			if len(c.Props) > 0 {
				v.curProps = c.Props
			}
			g := renv.trBool(c.Expr)
			v.oblige(st, "post", fmt.Sprintf("%d", k+1), g, decl.Pos(), "postcondition: "+c.Text)
			v.curProps = save
		}
		for k, c := range fc.clauses("fresh") {
			for _, a := range c.Args {
				x := renv.tr(a)
				v.oblige(st, "fresh", fmt.Sprintf("%d", k+1), v.freshFact(x, v.entry.alloc, st.alloc), decl.Pos(), "result is freshly allocated: "+c.Text)
			}
		}
		if len(fc.clauses("assigns")) > 0 || fc.Flags["pure"] {
			v.checkFrame(st, env, decl.Pos())
		}
	}
}

// unusedAsserts reports ghost assertions whose marker statement was not found.
func (v *Verifier) checkAssertMarkers() {
	for _, c := range v.fc.Clauses {
		if (c.Kind == "assert" || c.Where != "") && !c.hit {
			// a proof cut whose statement no longer exists is dropped (the proof then has to
			// go through without it); reported in the evidence, not as a violation
			v.notes = append(v.notes, "ghost assertion marker not found in "+v.fnName+": "+c.Marker)
		}
	}
}

func (v *Verifier) caseSuffix() string {
	if v.caseLabel == "" {
		return ""
	}
	return "@" + v.caseLabel
}

func propsMatch(tags []string, only map[string]bool) bool {
	if len(tags) == 0 || only == nil {
		return true
	}
	for _, t := range tags {
		if only[t] {
			return true
		}
	}
	return false
}

// bindCaptured gives every variable captured by a literal a symbolic value.
func (v *Verifier) bindCaptured(s *State, lit *ast.FuncLit) {
	ast.Inspect(lit.Body, func(n ast.Node) bool {
		id, ok := n.(*ast.Ident)
		if !ok {
			return true
		}
		o, ok := v.info.Uses[id].(*types.Var)
		if !ok || o.IsField() || o.Pkg() == nil || o.Parent() == o.Pkg().Scope() {
			return true
		}
		if o.Pos() >= lit.Pos() && o.Pos() <= lit.End() {
			return true
		}
		if _, done := s.vars[o]; done {
			return true
		}
		val := v.symbolic(s, "cap_"+o.Name(), o.Type())
		s.vars[o] = val
		v.entry.vars[o] = val
		return true
	})
}

// checkFrame: every pre-existing memory location outside the assigns clause is unchanged.
func (v *Verifier) checkFrame(st *State, env *CEnv, pos token.Pos) {
	e := env.at(v.entry, v.entry)
	type region struct{ base, lo, hi *Term }
	sliceRegions := map[string][]region{}
	objFields := map[string][]*Term{} // heap name -> allowed object refs
	wholeHeaps := map[string]bool{}
	allowAll := false
	for _, c := range v.fc.clauses("assigns") {
		for _, a := range c.Args {
			switch {
			case a.Kind == "ident" && a.Name == "all":
				allowAll = true
				continue
			case a.Kind == "call" && a.X.Kind == "ident" && a.X.Name == "all":
				for _, arg := range a.Args {
					wholeHeaps[e.heapNameOf(arg)] = true
				}
				continue
			case a.Kind == "call" && a.X.Kind == "ident" && v.eng.ghostFields[a.X.Name] != nil:
				continue
			case a.Kind == "call" && a.X.Kind == "ident" && a.X.Name == "global":
				for name := range st.heaps {
					if strings.HasPrefix(name, "G_") && strings.HasSuffix(name, "_"+a.Args[0].String()) {
						wholeHeaps[name] = true
					}
				}
				continue
			}
			if a.Kind == "un" && a.Op == "*" {
				a = a.X
			}
			isContents := false
			if a.Kind == "call" && a.X.Kind == "ident" && a.X.Name == "contents" && len(a.Args) == 1 {
				a = a.Args[0]
				isContents = true
			}
			if a.Kind == "sel" && !isContents {
				base := e.tr(a.X)
				if stT, isPtr := derefType(base.Ty); isPtr || true {
					if stt, ok := stT.Underlying().(*types.Struct); ok {
						for i := 0; i < stt.NumFields(); i++ {
							if stt.Field(i).Name() == a.Name {
								if at, isArr := stt.Field(i).Type().Underlying().(*types.Array); isArr {
									name := v.sliceHeapNameT(at.Elem())
									sliceRegions[name] = append(sliceRegions[name], region{fieldBase(base.T, i), IntLit(0), IntLit(at.Len())})
								} else {
									name := v.heapName("F", structTypeName(stT), a.Name)
									objFields[name] = append(objFields[name], base.T)
								}
							}
						}
						continue
					}
				}
			}
			x := e.tr(a)
			switch u := x.Ty.Underlying().(type) {
			case *types.Slice:
				name := v.sliceHeapNameT(u.Elem())
				sliceRegions[name] = append(sliceRegions[name], region{SBase(x.T), SOff(x.T), Add(SOff(x.T), SLen(x.T))})
			case *types.Pointer:
				switch pu := u.Elem().Underlying().(type) {
				case *types.Array:
					name := v.sliceHeapNameT(pu.Elem())
					sliceRegions[name] = append(sliceRegions[name], region{x.T, IntLit(0), IntLit(pu.Len())})
				case *types.Struct:
					for i := 0; i < pu.NumFields(); i++ {
						if at, isArr := pu.Field(i).Type().Underlying().(*types.Array); isArr {
							name := v.sliceHeapNameT(at.Elem())
							sliceRegions[name] = append(sliceRegions[name], region{fieldBase(x.T, i), IntLit(0), IntLit(at.Len())})
						} else {
							name := v.heapName("F", structTypeName(u.Elem()), pu.Field(i).Name())
							objFields[name] = append(objFields[name], x.T)
						}
					}
				default:
					name := "P_" + sortTag(v.sortOf(u.Elem()))
					objFields[name] = append(objFields[name], x.T)
				}
			case *types.Map:
				ks, vs := v.sortOf(u.Key()), v.sortOf(u.Elem())
				tag := sortTag(ks) + "_" + sortTag(vs)
				objFields["Mh_"+tag] = append(objFields["Mh_"+tag], x.T)
				objFields["Mv_"+tag] = append(objFields["Mv_"+tag], x.T)
			default:
				unsupported("assigns item %s of type %s", a, x.Ty)
			}
		}
	}
	if allowAll {
		return
	}
	names := sortedKeys(st.heaps)
	for _, name := range names {
		cur := st.heaps[name]
		if wholeHeaps[name] {
			continue
		}
		ent, ok := v.entry.heaps[name]
		if !ok {
			// heap first touched after a havoc-all: relation to the entry heap is unknown
			v.oblige(st, "frame", name, TFalse, pos, "frame: heap "+name+" was havocked by an unspecified callee")
			continue
		}
		if sameTerm(cur, ent) || strings.HasPrefix(name, "GF_") {
			continue
		}
		if strings.HasPrefix(name, "G_") {
			v.oblige(st, "frame", name, Eq(cur, ent), pos, "frame: package variable "+name+" unchanged")
			continue
		}
		b := v.fresh("fb", SInt)
		if strings.HasPrefix(name, "H_") {
			i := v.fresh("fi", SInt)
			var allowed []*Term
			for _, r := range sliceRegions[name] {
				allowed = append(allowed, And(Eq(b, r.base), Le(r.lo, i), Lt(i, r.hi)))
			}
			g := Implies(And(existed(b, v.entry.alloc), Not(Or(allowed...))), Eq(Select(Select(cur, b), i), Select(Select(ent, b), i)))
			v.oblige(st, "frame", name, Forall([]*Term{b, i}, g), pos, "frame: no pre-existing element of "+name+" outside the assigns clause is written")
			continue
		}
		var allowed []*Term
		for _, r := range objFields[name] {
			allowed = append(allowed, Eq(b, r))
		}
		g := Implies(And(existed(b, v.entry.alloc), Not(Or(allowed...))), Eq(Select(cur, b), Select(ent, b)))
		v.oblige(st, "frame", name, Forall([]*Term{b}, g), pos, "frame: no pre-existing object's "+name+" outside the assigns clause is written")
	}
}

// ---------------- lemmas ----------------

func (e *Engine) verifyLemma(lm *Lemma, p *packages.Package) *Verifier {
	fc := &FuncContract{Name: "lemma." + lm.Name, Flags: map[string]bool{}, Props: lm.Props, Mode: lm.Mode}
	v := newVerifier(e, p, fc)
	v.fnName = "lemma." + lm.Name
	v.curProps = lm.Props
	defer func() {
		if r := recover(); r != nil {
			if se, ok := r.(subsetError); ok {
				v.obligs = append(v.obligs, &Oblig{Name: v.fnName + "#subset", Class: "subset", Func: v.fnName, Goal: TFalse, Desc: "lemma out of supported subset: " + se.msg, Verdict: "error", Props: lm.Props})
				return
			}
			panic(r)
		}
	}()
	s := &State{vars: map[types.Object]*Term{}, heaps: map[string]*Term{}, ghost: map[string]*Term{}, locks: map[string]bool{}}
	s.alloc = Const("alloc@0", SInt)
	v.entry = s.clone()
	var tp *types.Package
	if p != nil {
		tp = p.Types
	}
	env := v.newEnv(tp)
	env.st, env.old = s, s
	for _, prm := range lm.Params {
		ty := env.resolveType(prm.Type)
		var c *Term
		if ty == nil {
			c = v.fresh("l_"+prm.Name, SInt)
		} else if ty == bstrType {
			c = v.fresh("l_"+prm.Name, env.bstrSort())
			s.assume(env.normFact(c))
		} else {
			c = v.fresh("l_"+prm.Name, env.sortOfC(ty))
			s.assume(v.typeFacts(s, c, ty))
		}
		env.vars[prm.Name] = CVal{c, ty}
	}
	for _, r := range lm.Requires {
		s.assume(env.trBool(r))
	}
	v.obligs = append(v.obligs, &Oblig{Name: v.fnName + "#vacuity:requires", Class: "vacuity", Func: v.fnName, PC: append([]*Term(nil), s.pc...), Goal: TFalse, MustSat: true, Desc: "lemma hypotheses are satisfiable", Mode: v.mode, Props: lm.Props})
	// induction hypothesis: the lemma at (k-1) with the other parameters unchanged
	if lm.Induct != "" {
		k, ok := env.vars[lm.Induct]
		if !ok {
			unsupported("lemma %s: induction variable %s is not a parameter", lm.Name, lm.Induct)
		}
		ih := env.bind(lm.Induct, CVal{Sub(k.T, IntLit(1)), k.Ty})
		var hyps, concl []*Term
		for _, r := range lm.Requires {
			hyps = append(hyps, ih.trBool(r))
		}
		for _, u := range lm.Ensures {
			concl = append(concl, ih.trBool(u))
		}
		s.assume(Implies(And(append(hyps, Gt(k.T, IntLit(0)))...), And(concl...)))
	}
	for _, u := range lm.Unfolds {
		v.unfoldOne(s, env, u)
	}
	for _, u := range lm.Uses {
		v.useOne(s, env, u, token.NoPos)
	}
	for k, u := range lm.Ensures {
		v.oblige(s, "lemma", fmt.Sprintf("%d", k+1), env.trBool(u), token.NoPos, "lemma "+lm.Name+": "+u.String())
	}
	return v
}

func uniqueSorted(xs []string) []string {
	m := map[string]bool{}
	for _, x := range xs {
		m[x] = true
	}
	var out []string
	for x := range m {
		out = append(out, x)
	}
	sort.Strings(out)
	return out
}

func (v *Verifier) assumeAxiom(s *State, env *CEnv, ax *Axiom) {
	q0 := v.inQuant
	defer func() {
		if r := recover(); r != nil {
			v.inQuant = q0 // a skipped axiom must not leave the translator "inside a quantifier"
			// only an axiom about types / package-local spec functions that are not in scope
			// for this function may be skipped; any other translation error is a tool error
			if se, ok := r.(subsetError); ok && (strings.Contains(se.msg, "unknown type") || strings.Contains(se.msg, "unknown function")) {
				if os.Getenv("GVC_DEBUG") != "" {
					fmt.Fprintf(os.Stderr, "axiom %s skipped: %v\n", ax.Name, se)
				}
				return
			}
			if se, ok := r.(subsetError); ok {
				panic(subsetError{msg: "axiom " + ax.Name + ": " + se.msg})
			}
			panic(r)
		}
	}()
	n := len(s.pc)
	t := env.at(s, s).trBool(ax.Expr)
	s.pc = s.pc[:n] // drop side facts produced while translating
	if os.Getenv("GVC_NOPAT") != "" {
		s.assume(t)
	} else {
		for _, c := range splitAxiom(t) {
			s.assume(withInferredPattern(c))
		}
	}
	for _, p := range s.pc[n:] {
		v.axiomSet[p] = true
	}
	v.trusted["axiom "+ax.Name+" ("+ax.File[strings.LastIndex(ax.File, "/")+1:]+")"] = true
}

// evalMapTable: a package-level map initialised by a literal with constant
// keys and values, assumed never to be modified after package initialisation.
func (v *Verifier) evalMapTable(s *State, o *types.Var, init ast.Expr, ref *Term) {
	p := v.eng.globPkg[o]
	cl, ok := init.(*ast.CompositeLit)
	mt, isMap := o.Type().Underlying().(*types.Map)
	if !ok || !isMap || p == nil {
		return
	}
	ks, vs := v.sortOf(mt.Key()), v.sortOf(mt.Elem())
	has := ConstArray(SArr(ks, SBool), TFalse)
	vals := ConstArray(SArr(ks, vs), v.zeroOf(mt.Elem()))
	for _, el := range cl.Elts {
		kv, ok := el.(*ast.KeyValueExpr)
		if !ok {
			return
		}
		ktv, vtv := p.TypesInfo.Types[kv.Key], p.TypesInfo.Types[kv.Value]
		if ktv.Value == nil || vtv.Value == nil {
			return
		}
		k := v.constTerm(ktv.Value, mt.Key())
		has = Store(has, k, TTrue)
		vals = Store(vals, k, v.constTerm(vtv.Value, mt.Elem()))
	}
	_, _, hh, hv := v.mapHeaps(s, mt)
	s.assume(Neq(ref, IntLit(0)))
	s.assume(Eq(Select(hh, ref), has))
	s.assume(Eq(Select(hv, ref), vals))
	v.assumed["package-level map "+o.Pkg().Name()+"."+o.Name()+" holds its initial literal (never modified after init)"] = true
}

// isConstCExpr: a literal or a (qualified) constant name.
func isConstCExpr(c *CExpr) bool {
	switch c.Kind {
	case "num", "ident", "sel", "str":
		return true
	case "un":
		return isConstCExpr(c.X)
	}
	return false
}

// withInferredPattern gives a pattern-less universally quantified axiom an explicit
// trigger, so that the solver does not pick one that makes axioms feed each other
// without bound (e.g. beNat/beMin/beBytes).  For a (conditional) equation L == R the
// trigger is L when it is an application that mentions every bound variable; otherwise
// the smallest spec-function application that does.  No such term: left to the solver.
func withInferredPattern(t *Term) *Term {
	if t.Op != "forall" || len(t.Args) != 1 || len(t.Binders) == 0 {
		return t
	}
	body := t.Args[0]
	for body.Op == "=>" && len(body.Args) == 2 {
		body = body.Args[1]
	}
	covers := func(x *Term) bool {
		str := x.String()
		for _, b := range t.Binders {
			if !containsWord(str, b.String()) {
				return false
			}
		}
		return !containsOp(x, "ite") && !containsOp(x, "forall") && !containsOp(x, "exists")
	}
	isApp := func(x *Term) bool {
		return strings.HasPrefix(x.Op, "spec.") && len(x.Args) > 0
	}
	var pat *Term
	if body.Op == "=" && len(body.Args) == 2 {
		for _, side := range body.Args {
			if (isApp(side) || (side.Op == "select" && containsSpecApp(side))) && covers(side) {
				pat = side
				break
			}
		}
	}
	if pat == nil {
		var walk func(x *Term)
		seen := map[*Term]bool{}
		walk = func(x *Term) {
			if x == nil || seen[x] || x.IsLit {
				return
			}
			seen[x] = true
			if isApp(x) && covers(x) && (pat == nil || x.Size() < pat.Size()) {
				pat = x
			}
			for _, a := range x.Args {
				walk(a)
			}
		}
		walk(t.Args[0])
	}
	if pat == nil {
		// multi-pattern: spec applications of the hypotheses that together mention every
		// bound variable (smallest first)
		var apps []*Term
		seen := map[string]bool{}
		var walk func(x *Term)
		walk = func(x *Term) {
			if x == nil || x.IsLit {
				return
			}
			if isApp(x) && !containsOp(x, "ite") && !containsOp(x, "forall") && !containsOp(x, "exists") && !seen[x.String()] {
				seen[x.String()] = true
				apps = append(apps, x)
				return
			}
			for _, a := range x.Args {
				walk(a)
			}
		}
		hyp := t.Args[0]
		for hyp.Op == "=>" && len(hyp.Args) == 2 {
			walk(hyp.Args[0])
			hyp = hyp.Args[1]
		}
		sort.SliceStable(apps, func(i, j int) bool { return apps[i].Size() < apps[j].Size() })
		covered := map[string]bool{}
		var chosen []*Term
		for _, a := range apps {
			str := a.String()
			adds := false
			for _, b := range t.Binders {
				if !covered[b.String()] && containsWord(str, b.String()) {
					adds = true
				}
			}
			if !adds {
				continue
			}
			for _, b := range t.Binders {
				if containsWord(str, b.String()) {
					covered[b.String()] = true
				}
			}
			chosen = append(chosen, a)
		}
		if len(chosen) >= 2 && len(covered) == len(t.Binders) {
			return Forall(t.Binders, t.Args[0], &Term{Op: "multipat", Sort: SBool, Args: chosen})
		}
		return t
	}
	return Forall(t.Binders, t.Args[0], pat)
}

func containsSpecApp(x *Term) bool {
	if strings.HasPrefix(x.Op, "spec.") && len(x.Args) > 0 {
		return true
	}
	for _, a := range x.Args {
		if containsSpecApp(a) {
			return true
		}
	}
	return false
}

func containsWord(s, w string) bool {
	for i := 0; ; {
		j := strings.Index(s[i:], w)
		if j < 0 {
			return false
		}
		j += i
		end := j + len(w)
		okL := j == 0 || !isIdentByte(s[j-1])
		okR := end == len(s) || !isIdentByte(s[end])
		if okL && okR {
			return true
		}
		i = j + 1
	}
}

func isIdentByte(c byte) bool {
	return c == '_' || c == '!' || c == '.' || c == '@' || (c >= '0' && c <= '9') || (c >= 'a' && c <= 'z') || (c >= 'A' && c <= 'Z')
}

// splitAxiom: forall xs :: A ==> (P && Q)  becomes one axiom per conjunct, so that each
// gets its own trigger.
func splitAxiom(t *Term) []*Term {
	if t.Op == "and" && !t.IsLit {
		var out []*Term
		for _, a := range t.Args {
			out = append(out, splitAxiom(a)...)
		}
		return out
	}
	if t.Op != "forall" || len(t.Args) != 1 {
		return []*Term{t}
	}
	var hyps []*Term
	body := t.Args[0]
	for body.Op == "=>" && len(body.Args) == 2 {
		hyps = append(hyps, body.Args[0])
		body = body.Args[1]
	}
	if body.Op != "and" || body.IsLit || len(body.Args) < 2 {
		return []*Term{t}
	}
	var out []*Term
	for _, c := range body.Args {
		b := c
		for i := len(hyps) - 1; i >= 0; i-- {
			b = Implies(hyps[i], b)
		}
		// only the variables the conjunct mentions stay bound
		var bs []*Term
		str := b.String()
		for _, x := range t.Binders {
			if containsWord(str, x.String()) {
				bs = append(bs, x)
			}
		}
		out = append(out, splitAxiom(Forall(bs, b))...)
	}
	return out
}
