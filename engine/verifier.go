package main

// Verifier: per-function symbolic execution producing proof obligations.

import (
	"sync/atomic"
	"fmt"
	"go/ast"
	"go/token"
	"go/types"
	"math/big"
	"sort"
	"strings"

	"golang.org/x/tools/go/packages"
)

type subsetError struct{ msg string }

func (e subsetError) Error() string { return e.msg }

func unsupported(format string, args ...any) {
	panic(subsetError{fmt.Sprintf(format, args...)})
}

// ---------------- declarations shared by all scripts ----------------

type DeclSet struct {
	datatypes  []string          // in dependency order
	dtSeen     map[string]bool   // sort name -> declared
	funs       map[string]string // name -> full (declare-fun ...)
	funOrder   []string
	strLits    map[string]string // literal text -> const name
	strOrder   []string
	strByName  map[string]string // const name -> literal text
	sortsDecl  map[string]bool // uninterpreted sorts
	sortOrder  []string
	typeIDs    map[string]int // dynamic type name -> id (for Iface tags)
	typeByID   []string
	structInfo map[string]*structInfo
}

type structInfo struct {
	sort   string
	ctor   string
	fields []string // accessor names
	fsorts []string
	st     *types.Struct
}

func newDeclSet() *DeclSet {
	return &DeclSet{dtSeen: map[string]bool{}, funs: map[string]string{}, strLits: map[string]string{}, sortsDecl: map[string]bool{}, typeIDs: map[string]int{}, typeByID: []string{"<nil>"}, structInfo: map[string]*structInfo{}}
}

func (d *DeclSet) declareFun(name string, args []string, res string) {
	if _, ok := d.funs[name]; ok {
		return
	}
	d.funs[name] = fmt.Sprintf("(declare-fun %s (%s) %s)", name, strings.Join(args, " "), res)
	d.funOrder = append(d.funOrder, name)
}

func (d *DeclSet) typeID(name string) int {
	if id, ok := d.typeIDs[name]; ok {
		return id
	}
	id := len(d.typeByID)
	d.typeIDs[name] = id
	d.typeByID = append(d.typeByID, name)
	return id
}

func smtIdent(s string) string {
	var sb strings.Builder
	for _, r := range s {
		switch {
		case r >= 'a' && r <= 'z', r >= 'A' && r <= 'Z', r >= '0' && r <= '9', r == '_', r == '.', r == '!', r == '@', r == '$':
			sb.WriteRune(r)
		default:
			sb.WriteRune('_')
		}
	}
	return sb.String()
}

// ---------------- state ----------------

type State struct {
	vars     map[types.Object]*Term
	heaps    map[string]*Term
	alloc    *Term
	pc       []*Term
	ghost    map[string]*Term
	epoch    int // number of havoc-all events so far
	arank    int // allocation rank (monotone along a path)
	eqs      map[string]*Term
	eqs2     map[string]*Term // non-literal equalities: used only to key defined arrays by length
	rewrite  func(*Term) *Term // normalisation of assumed quantified formulas
	splits   []*Term           // boolean constants worth a case split in proofs (e.g. append capacity tests)
	branches []*Term           // conditions assumed at control-flow forks (subset of pc)
	locks    map[string]bool
	defers   []*ast.CallExpr
	dead     bool
	snaps    []*snapshot // interior struct fields whose address was taken (modelled as a copy)
}

// snapshot: &p.f for a struct-typed field f stored by value in a heap struct.  Interior
// pointers are not modelled; the address is that of a fresh copy, and at every return it
// is an obligation that neither the copy nor the original was written since.
type snapshot struct {
	ref   *Term
	t     types.Type
	val   *Term          // value at the time the address was taken
	expr  *ast.SelectorExpr
	pos   token.Pos
}

func (s *State) clone() *State {
	n := &State{vars: make(map[types.Object]*Term, len(s.vars)), heaps: make(map[string]*Term, len(s.heaps)), alloc: s.alloc, ghost: map[string]*Term{}, epoch: s.epoch, locks: map[string]bool{}, arank: s.arank, rewrite: s.rewrite}
	for k, v := range s.vars {
		n.vars[k] = v
	}
	for k, v := range s.heaps {
		n.heaps[k] = v
	}
	for k, v := range s.ghost {
		n.ghost[k] = v
	}
	for k, v := range s.locks {
		n.locks[k] = v
	}
	if len(s.eqs) > 0 {
		n.eqs = make(map[string]*Term, len(s.eqs))
		for k, v := range s.eqs {
			n.eqs[k] = v
		}
	}
	if len(s.eqs2) > 0 {
		n.eqs2 = make(map[string]*Term, len(s.eqs2))
		for k, v := range s.eqs2 {
			n.eqs2[k] = v
		}
	}
	n.splits = append([]*Term(nil), s.splits...)
	n.branches = append([]*Term(nil), s.branches...)
	n.pc = append([]*Term(nil), s.pc...)
	n.defers = append([]*ast.CallExpr(nil), s.defers...)
	n.snaps = append([]*snapshot(nil), s.snaps...)
	return n
}

func (s *State) assume(t *Term) { s.assume1(t, true) }

func (s *State) assume1(t *Term, rw bool) {
	if t == nil || t.isTrue() {
		return
	}
	if rw && s.rewrite != nil && (t.Op == "forall" || t.Op == "exists" || t.Op == "=>" || t.Op == "not" || t.Op == "or") {
		t = s.rewrite(t)
		rw = false
	}
	if t.Op == "and" && !t.IsLit {
		for _, a := range t.Args {
			s.assume1(a, rw)
		}
		return
	}
	// skolemise assumed existentials (also in the consequent of an implication): the
	// witness becomes a constant of the path, which later goals can be instantiated with
	if t.Op == "exists" && len(t.Binders) > 0 {
		s.assume1(skolemise(t), rw)
		return
	}
	if t.Op == "=>" && len(t.Args) == 2 && t.Args[1].Op == "exists" && len(t.Args[1].Binders) > 0 {
		s.assume1(Implies(t.Args[0], skolemise(t.Args[1])), rw)
		return
	}
	if t.isFalse() {
		s.dead = true
	}
	// remember ground facts  X = literal  for later term normalisation
	if t.Op == "=" && len(t.Args) == 2 && t.Sort == SBool {
		a, b := t.Args[0], t.Args[1]
		if a.IsLit && !b.IsLit {
			a, b = b, a
		}
		if !b.IsLit && !a.IsLit && a.Sort == SInt && len(s.eqs) > 0 {
			// x = e where e is a literal under the equalities known so far
			if nb := s.normInt(b); nb.IsLit && isAtomTerm(a) {
				b = nb
			} else if na := s.normInt(a); na.IsLit && isAtomTerm(b) {
				a, b = b, na
			}
		}
		if b.IsLit && !a.IsLit && a.Sort == SInt && a.Size() < 40 {
			if s.eqs == nil {
				s.eqs = map[string]*Term{}
			}
			s.eqs[a.String()] = b
		} else if !a.IsLit && !b.IsLit && a.Sort == SInt && isAtomTerm(a) && isAtomTerm(b) && a.Size() < 12 && b.Size() < 12 {
			// equal atoms (fields, variables): orient towards the smaller name
			as, bs := a.String(), b.String()
			if as != bs {
				if len(as) < len(bs) || (len(as) == len(bs) && as < bs) {
					a, b, as, bs = b, a, bs, as
				}
				if s.eqs2 == nil {
					s.eqs2 = map[string]*Term{}
				}
				if _, dup := s.eqs2[as]; !dup {
					s.eqs2[as] = b
				}
			}
		} else if !a.IsLit && !b.IsLit && a.Sort == SInt && (isSpecApp(a) != isSpecApp(b)) && (len(a.Args) == 0 || len(b.Args) == 0) {
			// x = f(args) for a variable x and a spec function f (typically a callee's result)
			if isSpecApp(a) {
				a, b = b, a
			}
			if b.Size() < 20 && !strings.Contains(b.String(), a.String()) {
				if s.eqs2 == nil {
					s.eqs2 = map[string]*Term{}
				}
				if _, dup := s.eqs2[a.String()]; !dup {
					s.eqs2[a.String()] = b
				}
			}
		} else if !a.IsLit && !b.IsLit && a.Sort == SInt && (isLenOfVar(a) != isLenOfVar(b)) {
			// len(x) = e for a slice variable x (typically a callee's result length)
			if isLenOfVar(b) {
				a, b = b, a
			}
			if b.Size() < 40 && !strings.Contains(b.String(), a.String()) {
				if s.eqs2 == nil {
					s.eqs2 = map[string]*Term{}
				}
				if _, dup := s.eqs2[a.String()]; !dup {
					s.eqs2[a.String()] = b
				}
			}
		}
	}
	s.pc = append(s.pc, t)
}

// assumeBranch records a control-flow condition (used to build path guards when paths are joined).
func (s *State) assumeBranch(t *Term) {
	s.branches = append(s.branches, t)
	s.assume(t)
}

// knownCond folds a branch condition that (or whose negation) is literally assumed already.
func (s *State) knownCond(c *Term) *Term {
	if c.IsLit {
		return c
	}
	cs, ns := c.String(), Not(c).String()
	for _, p := range s.pc {
		ps := p.String()
		if ps == cs {
			return TTrue
		}
		if ps == ns {
			return TFalse
		}
	}
	return c
}

// isAtomTerm: a variable or a (nested) heap read.
func isAtomTerm(t *Term) bool {
	if t.IsLit {
		return false
	}
	if len(t.Args) == 0 {
		return true
	}
	if t.Op == "select" && len(t.Args) == 2 {
		return (len(t.Args[0].Args) == 0) && isAtomTerm(t.Args[1])
	}
	return false
}

func isSpecApp(t *Term) bool {
	return strings.HasPrefix(t.Op, "spec.") && len(t.Args) > 0
}

func isLenOfVar(t *Term) bool {
	return t.Op == "s.len" && len(t.Args) == 1 && len(t.Args[0].Args) == 0 && !t.Args[0].IsLit
}

// normInt rewrites an Int term with the literal equalities known on this path.
func (s *State) normInt(t *Term) *Term {
	if len(s.eqs) == 0 || t.IsLit {
		return t
	}
	for i := 0; i < 4; i++ {
		n := replaceSub(t, s.eqs, map[*Term]*Term{})
		if n == t {
			break
		}
		t = n
	}
	return t
}

// normKey: like normInt, also using the non-literal equalities; only for comparison keys.
func (s *State) normKey(t *Term) *Term {
	t = s.normInt(t)
	if len(s.eqs2) == 0 || t.IsLit {
		return t
	}
	for i := 0; i < 4; i++ {
		n := replaceSub(t, s.eqs2, map[*Term]*Term{})
		if n == t {
			break
		}
		t = s.normInt(n)
	}
	return t
}

func replaceSub(t *Term, m map[string]*Term, memo map[*Term]*Term) *Term {
	if t.IsLit {
		return t
	}
	if r, ok := memo[t]; ok {
		return r
	}
	var res *Term
	if r, ok := m[t.String()]; ok && r.Sort == t.Sort {
		res = r
	} else if len(t.Args) == 0 || t.Op == "forall" || t.Op == "exists" {
		res = t
	} else {
		na := make([]*Term, len(t.Args))
		changed := false
		for i, a := range t.Args {
			na[i] = replaceSub(a, m, memo)
			if na[i] != a {
				changed = true
			}
		}
		if changed {
			res = rebuild(t, na)
		} else {
			res = t
		}
	}
	memo[t] = res
	return res
}

type flowKind int

const (
	flowNormal flowKind = iota
	flowBreak
	flowContinue
	flowReturn
)

type Flow struct {
	St    *State
	Kind  flowKind
	Label string
	Ret   []*Term
	Pos   token.Pos
	ErrRet bool // the return statement returns a (non-nil-literal) error value
}

// ---------------- obligations ----------------

type Oblig struct {
	Name    string
	Class   string
	Func    string
	Props   []string
	PC      []*Term
	Goal    *Term
	Pos     string
	Desc    string
	MustSat bool // vacuity checks: expected sat
	ErrRet  bool // vacuity-path: the return statement is an error return
	Mode    string
	// results
	Verdict   string // unsat sat unknown
	Solver    string
	Ms        int64
	Model     string
	Outputs   map[string]string
	Script    string
	Bounded   string
	replayed  bool
	paramIn   map[string]*Term
	CrossConfirmed []string // thorough tier: other solvers that also proved the obligation
	Retried   bool // discharged only in the sequential retry with the larger budget
	Candidate bool // Model is a candidate from a weakened query (to be confirmed by replay)
}

// ---------------- verifier ----------------

type Verifier struct {
	zeroDecl       bool // declareVar is initialising a `var x T` zero value
	bsNames        map[string]*Term // names of byte-string spec applications, by term
	eng            *Engine
	pkg            *packages.Package
	info           *types.Info
	decl           *ast.FuncDecl
	body           *ast.BlockStmt
	fc             *FuncContract
	sig            *types.Signature
	fnName         string
	mode           string
	d              *DeclSet
	obligs         []*Oblig
	nfresh         int
	npaths         int
	pathCap        int
	loopOrd        map[ast.Node]int
	litOrd         map[*ast.FuncLit]int
	boxed          map[types.Object]bool
	entry          *State
	params         []*types.Var
	paramIn        map[string]*Term // contract name -> entry value
	paramTy        map[string]types.Type
	results        []*types.Var
	resNames       []string
	recv           *types.Var
	counter        map[string]int
	trusted        map[string]bool
	unspec         map[string]bool
	inlined        map[string]bool
	assumed        map[string]bool
	depth          int
	curProps       []string
	retVars        []types.Object
	ghostOld       map[string]*Term
	inQuant        int
	needPow2       bool
	nlProducts     [][3]*Term
	windows        map[string]*winInfo
	lits           map[int]litInfo
	heapSorts      map[string]string
	scanned        map[ast.Node]bool
	reslicedOnly   map[*types.Var]bool
	globalsWritten map[string]bool
	pendingHavoc   map[string]bool
	specUsed       map[string]bool
	lemmasUsed     map[string]bool
	normDone       map[string]bool
	resStack       [][]*types.Var
	sweep          bool
	caseLabel      string
	notes          []string
	freshLocal     map[*types.Var]bool
	sliceRoot      map[*types.Var]*types.Var
	inSplit        bool
	heapAxioms     []*Term
	heapAxDone     map[string]bool
	heapAxSet      map[*Term]bool
	heapAxOf       map[string]*Term
	axiomSet       map[*Term]bool
	obligeHook     func(s *State, g *Term)
	nQueries       int
	defArrays      []*winInfo
	refRank        map[string]int
	allocRank      map[string]int
}

func (v *Verifier) fresh(prefix, sort string) *Term {
	v.nfresh++
	return Const(fmt.Sprintf("%s!%d", smtIdent(prefix), v.nfresh), sort)
}

func (v *Verifier) pos(p token.Pos) string {
	if !p.IsValid() {
		return ""
	}
	ps := v.eng.fset.Position(p)
	return fmt.Sprintf("%s:%d", strings.TrimPrefix(ps.Filename, "/repo/"), ps.Line)
}

func (v *Verifier) oblige(s *State, class, label string, goal *Term, p token.Pos, desc string) {
	if s.dead {
		return
	}
	if goal.isTrue() {
		return
	}
	if v.obligeHook != nil {
		v.obligeHook(s, goal)
		return
	}
	// A ==> (byte-string / array equality ...): assume A and prove the consequent, so that
	// the equality gets the pointwise treatment below
	if goal.Op == "=>" && len(goal.Args) == 2 && class != "vacuity" && hasExtEq(goal.Args[1]) {
		ns := s.clone()
		ns.assume(goal.Args[0])
		v.oblige(ns, class, label, goal.Args[1], p, desc)
		return
	}
	// an equality of byte strings is proved as equal length and pointwise equal contents
	if goal.Op == "=" && len(goal.Args) == 2 && (goal.Args[0].Sort == "BStr" || goal.Args[0].Sort == "BStrB") && class != "vacuity" {
		srt := goal.Args[0].Sort
		es := SInt
		if srt == "BStrB" {
			es = SBV(8)
		}
		a, b := goal.Args[0], goal.Args[1]
		k := v.fresh("ext", SInt)
		goal = And(Eq(acc(srt+".len", 1, SInt, a), acc(srt+".len", 1, SInt, b)),
			Eq(Select(acc(srt+".arr", 0, SArr(SInt, es), a), k), Select(acc(srt+".arr", 0, SArr(SInt, es), b), k)))
		if goal.isTrue() {
			return
		}
	}
	// an equality of arrays is proved pointwise at a fresh index (extensionality)
	if goal.Op == "=" && len(goal.Args) == 2 && strings.HasPrefix(goal.Args[0].Sort, "(Array Int ") && class != "vacuity" {
		k := v.fresh("ext", SInt)
		goal = Eq(Select(goal.Args[0], k), Select(goal.Args[1], k))
	}
	// a conjunction is proved conjunct by conjunct
	if goal.Op == "and" && !goal.IsLit && len(goal.Args) > 1 && class != "vacuity" {
		for i, g := range goal.Args {
			v.oblige(s, class, fmt.Sprintf("%s.%c", label, 'a'+rune(i%26)), g, p, desc)
		}
		return
	}
	// syntactic discharge: goal literally among assumptions
	gs := goal.String()
	for _, a := range s.pc {
		if a.String() == gs {
			return
		}
	}
	if v.caseLabel != "" {
		label += "@" + v.caseLabel
	}
	// case split on recorded boolean constants (each case substitutes the constant,
	// which lets the simplifier remove the ite terms that depend on it)
	if len(s.splits) > 0 && len(s.splits) <= 2 && hasQuant(goal) && !v.inSplit {
		used := map[string]string{}
		goal.Symbols(used, map[string]bool{})
		for _, p := range s.pc {
			p.Symbols(used, map[string]bool{})
		}
		var cs []*Term
		for _, c := range s.splits {
			if _, ok := used[c.Op]; ok {
				cs = append(cs, c)
			}
		}
		if len(cs) > 0 {
			v.inSplit = true
			for mask := 0; mask < 1<<len(cs); mask++ {
				m := map[string]*Term{}
				tag := ""
				for i, c := range cs {
					if mask&(1<<i) != 0 {
						m[c.Op] = TTrue
						tag += "T"
					} else {
						m[c.Op] = TFalse
						tag += "F"
					}
				}
				ns := s.clone()
				ns.pc = nil
				ns.rewrite = nil
				dead := false
				for _, p := range s.pc {
					q := p.Subst(m)
					if q.isFalse() {
						dead = true
						break
					}
					if !q.isTrue() {
						ns.pc = append(ns.pc, q)
					}
				}
				if dead {
					continue
				}
				v.oblige(ns, class, label+"|"+tag, goal.Subst(m), p, desc)
			}
			v.inSplit = false
			return
		}
	}
	key := class + ":" + label
	v.counter[key]++
	name := fmt.Sprintf("%s#%s:%s", v.fnName, class, label)
	if v.counter[key] > 1 {
		name = fmt.Sprintf("%s/%d", name, v.counter[key])
	}
	o := &Oblig{Name: name, Class: class, Func: v.fnName, PC: append([]*Term(nil), s.pc...), Goal: goal, Pos: v.pos(p), Desc: desc, Mode: v.mode, Props: v.curProps, paramIn: v.paramIn}
	v.obligs = append(v.obligs, o)
}

// ---------------- sorts ----------------

func (v *Verifier) intSort(w int) string {
	if v.mode == "bv" {
		return SBV(w)
	}
	return SInt
}

func basicWidth(b *types.Basic) (w int, signed bool, ok bool) {
	switch b.Kind() {
	case types.Int, types.Int64, types.UntypedInt, types.UntypedRune:
		return 64, true, true
	case types.Int8:
		return 8, true, true
	case types.Int16:
		return 16, true, true
	case types.Int32:
		return 32, true, true
	case types.Uint, types.Uint64, types.Uintptr:
		return 64, false, true
	case types.Uint8:
		return 8, false, true
	case types.Uint16:
		return 16, false, true
	case types.Uint32:
		return 32, false, true
	}
	return 0, false, false
}

func intInfo(t types.Type) (w int, signed bool, ok bool) {
	if t == nil {
		return 0, false, false
	}
	if b, isB := t.Underlying().(*types.Basic); isB {
		return basicWidth(b)
	}
	return 0, false, false
}

func isBool(t types.Type) bool {
	b, ok := t.Underlying().(*types.Basic)
	return ok && b.Info()&types.IsBoolean != 0
}
func isString(t types.Type) bool {
	b, ok := t.Underlying().(*types.Basic)
	return ok && b.Info()&types.IsString != 0
}
func isFloat(t types.Type) bool {
	b, ok := t.Underlying().(*types.Basic)
	return ok && b.Info()&(types.IsFloat|types.IsComplex) != 0
}

func (v *Verifier) sortOf(t types.Type) string {
	if t == nil {
		unsupported("nil type")
	}
	switch u := t.(type) {
	case *types.Named:
		if st, ok := u.Underlying().(*types.Struct); ok {
			name := "S_" + smtIdent(u.Obj().Name())
			if u.Obj().Pkg() != nil {
				name = "S_" + smtIdent(strings.ReplaceAll(structTypeName(u), ".", "_"))
			}
			if u.TypeArgs() != nil && u.TypeArgs().Len() > 0 {
				name += "_g"
			}
			return v.structSort(name, st)
		}
		return v.sortOf(u.Underlying())
	case *types.Alias:
		return v.sortOf(types.Unalias(u))
	case *types.Basic:
		if w, _, ok := basicWidth(u); ok {
			return v.intSort(w)
		}
		if u.Info()&types.IsBoolean != 0 {
			return SBool
		}
		if u.Info()&types.IsString != 0 {
			return SStr
		}
		if u.Kind() == types.UnsafePointer {
			return SInt
		}
		if u.Kind() == types.UntypedNil {
			return SInt
		}
		if u.Info()&types.IsFloat != 0 {
			v.d.sortsDecl["Float"] = true
			return "Float"
		}
		unsupported("basic type %s", u)
	case *types.Slice:
		return SSlice
	case *types.Array:
		return SArr(SInt, v.sortOf(u.Elem()))
	case *types.Pointer, *types.Map, *types.Chan, *types.Signature:
		return SInt
	case *types.Interface:
		return SIface
	case *types.Struct:
		return v.structSort(fmt.Sprintf("S_anon%d", u.NumFields())+smtIdent(fieldSig(u)), u)
	case *types.TypeParam:
		return SIface
	case *types.Tuple:
		unsupported("tuple type as value")
	}
	unsupported("type %s", t)
	return ""
}

func fieldSig(st *types.Struct) string {
	var ss []string
	for i := 0; i < st.NumFields(); i++ {
		ss = append(ss, st.Field(i).Name())
	}
	return strings.Join(ss, "_")
}

func (v *Verifier) structSort(name string, st *types.Struct) string {
	if v.mode == "bv" {
		name += "_bv"
	}
	if _, ok := v.d.structInfo[name]; ok {
		return name
	}
	si := &structInfo{sort: name, ctor: "mk-" + name, st: st}
	v.d.structInfo[name] = si // break cycles (pointers are Int anyway)
	for i := 0; i < st.NumFields(); i++ {
		f := st.Field(i)
		fs := v.sortOf(f.Type())
		an := name + "." + smtIdent(f.Name())
		if f.Name() == "_" {
			an = fmt.Sprintf("%s._%d", name, i)
		}
		si.fields = append(si.fields, an)
		si.fsorts = append(si.fsorts, fs)
		accessorOf[an] = accInfo{i}
	}
	var sb strings.Builder
	fmt.Fprintf(&sb, "(declare-datatypes ((%s 0)) (((%s", name, si.ctor)
	for i := range si.fields {
		fmt.Fprintf(&sb, " (%s %s)", si.fields[i], si.fsorts[i])
	}
	sb.WriteString("))))")
	v.d.datatypes = append(v.d.datatypes, sb.String())
	v.d.dtSeen[name] = true
	return name
}

func (v *Verifier) structInfoOf(t types.Type) *structInfo {
	s := v.sortOf(t)
	si := v.d.structInfo[s]
	if si == nil {
		unsupported("not a struct sort: %s", t)
	}
	return si
}

func sortTag(s string) string {
	r := strings.NewReplacer("(", "", ")", "", " ", "_")
	return r.Replace(s)
}

// ---------------- integer helpers ----------------

func (v *Verifier) intLit(n *big.Int, t types.Type) *Term {
	w, _, ok := intInfo(t)
	if !ok {
		w = 64
	}
	if v.mode == "bv" {
		return BVLitB(n, w)
	}
	return IntLitB(n)
}

func (v *Verifier) intConst(n int64, t types.Type) *Term { return v.intLit(big.NewInt(n), t) }

func typeRange(w int, signed bool) (lo, hi *big.Int) {
	if signed {
		return new(big.Int).Neg(Pow2(w - 1)), new(big.Int).Sub(Pow2(w-1), big.NewInt(1))
	}
	return big.NewInt(0), new(big.Int).Sub(Pow2(w), big.NewInt(1))
}

// wrapInt reduces a mathematical Int term into the range of (w, signed).
func wrapInt(x *Term, w int, signed bool) *Term {
	if x.isInt() {
		m := new(big.Int).Mod(x.Int, Pow2(w))
		if signed {
			m = toSigned(m, w)
		}
		return IntLitB(m)
	}
	if !signed {
		return Mod(x, IntLitB(Pow2(w)))
	}
	half := IntLitB(Pow2(w - 1))
	return Sub(Mod(Add(x, half), IntLitB(Pow2(w))), half)
}

// rangeFact returns lo <= x <= hi for an integer-typed term in int mode.
func (v *Verifier) rangeFact(x *Term, t types.Type) *Term {
	if v.mode == "bv" || x.IsLit {
		return TTrue
	}
	w, signed, ok := intInfo(t)
	if !ok {
		return TTrue
	}
	lo, hi := typeRange(w, signed)
	return And(Le(IntLitB(lo), x), Le(x, IntLitB(hi)))
}

// typeFacts: well-formedness assumptions for a symbolic value of Go type t.
func (v *Verifier) typeFacts(s *State, x *Term, t types.Type) *Term {
	switch u := t.Underlying().(type) {
	case *types.Basic:
		return v.rangeFact(x, t)
	case *types.Slice:
		return v.sliceWF(s, x)
	case *types.Pointer:
		if _, isArr := u.Elem().Underlying().(*types.Array); isArr {
			return Lt(x, s.alloc)
		}
		return And(Le(IntLit(0), x), Lt(x, s.alloc))
	case *types.Signature:
		// declared functions and literals are negative constants; closures are references
		return Lt(x, s.alloc)
	case *types.Map, *types.Chan:
		return And(Le(IntLit(0), x), Lt(x, s.alloc))
	case *types.Interface:
		return And(Le(IntLit(0), IType(x)), Lt(IVal(x), s.alloc), Implies(Eq(IType(x), IntLit(0)), Eq(IVal(x), IntLit(0))))
	case *types.Struct:
		si := v.structInfoOf(t)
		var fs []*Term
		for i := 0; i < u.NumFields(); i++ {
			ft := u.Field(i).Type()
			switch ft.Underlying().(type) {
			case *types.Basic, *types.Slice, *types.Pointer, *types.Map, *types.Interface:
				fs = append(fs, v.typeFacts(s, acc(si.fields[i], i, si.fsorts[i], x), ft))
			}
		}
		return And(fs...)
	}
	return TTrue
}

var maxLen = new(big.Int).Lsh(big.NewInt(1), 48)

func (v *Verifier) sliceWF(s *State, x *Term) *Term {
	return And(
		Lt(SBase(x), s.alloc),
		Le(Mul(IntLit(-64), s.alloc), SBase(x)),
		Le(IntLit(0), SOff(x)), Le(IntLit(0), SLen(x)), Le(SLen(x), SCap(x)), Le(SCap(x), IntLitB(maxLen)),
		Le(SOff(x), IntLitB(maxLen)),
		Implies(Eq(SBase(x), IntLit(0)), And(Eq(SLen(x), IntLit(0)), Eq(SCap(x), IntLit(0)), Eq(SOff(x), IntLit(0)))),
	)
}

// ---------------- heaps ----------------

func (v *Verifier) heapName(kind string, parts ...string) string {
	return kind + "_" + smtIdent(strings.Join(parts, "_"))
}

// getHeap returns the current term of a named heap, creating the entry
// constant (or an unknown post-havoc constant) on first use.
func (v *Verifier) getHeap(s *State, name, sort string) *Term {
	if h, ok := s.heaps[name]; ok {
		return h
	}
	var h *Term
	v.heapSorts[name] = sort
	if s.epoch == 0 {
		h = Const(name+"@0", sort)
	} else {
		h = Const(fmt.Sprintf("%s@e%d", name, s.epoch), sort)
	}
	s.heaps[name] = h
	if e, ok := v.entry.heaps[name]; !ok || e == nil {
		if s.epoch == 0 {
			v.entry.heaps[name] = h
		}
	}
	return h
}

func (v *Verifier) entryHeap(name, sort string) *Term {
	if h, ok := v.entry.heaps[name]; ok {
		return h
	}
	h := Const(name+"@0", sort)
	v.heapSorts[name] = sort
	v.entry.heaps[name] = h
	return h
}

func (v *Verifier) sliceHeapName(elemSort string) string { return "H_" + sortTag(elemSort) }

func isRefType(t types.Type) bool {
	switch t.Underlying().(type) {
	case *types.Pointer, *types.Map, *types.Chan, *types.Signature:
		return true
	}
	return false
}

// sliceHeapNameT: slices of reference-typed elements get a heap per element type
// (so that "every stored reference is older than the allocator" can be stated);
// all other element types share a heap per SMT sort.
func (v *Verifier) sliceHeapNameT(elem types.Type) string {
	if isRefType(elem) {
		return "H_ref_" + smtIdent(types.TypeString(elem, func(p *types.Package) string { return p.Name() }))
	}
	if w, signed, ok := intInfo(elem); ok && v.mode != "bv" {
		// int mode: one heap per integer width/signedness, so that the range of the
		// stored values is a heap-level fact
		if signed {
			return fmt.Sprintf("H_int%d", w)
		}
		return fmt.Sprintf("H_uint%d", w)
	}
	return v.sliceHeapName(v.sortOf(elem))
}

// refAxiom: a well-formedness fact for the first version of a heap: references
// stored in memory were allocated earlier (a global invariant of Go memory).
func (v *Verifier) refAxiom(s *State, h *Term, valType types.Type, twoLevel bool) {
	if valType == nil || h.Op == "store" || len(h.Args) > 0 {
		return
	}
	if ax, ok := v.heapAxOf[h.Op]; ok {
		if ax != nil {
			s.pc = append(s.pc, ax)
		}
		return
	}
	v.heapAxOf[h.Op] = nil
	al := s.alloc
	if strings.HasSuffix(h.Op, "@0") && v.entry != nil {
		al = v.entry.alloc // entry heaps only hold references that existed at entry
	}
	lo := Mul(IntLit(-64), al)
	bound := func(x *Term) *Term { return And(Le(lo, x), Lt(x, al)) }
	var fact func(x *Term) *Term
	switch valType.Underlying().(type) {
	case *types.Pointer, *types.Map, *types.Chan:
		fact = bound
	case *types.Slice:
		fact = func(x *Term) *Term { return bound(SBase(x)) }
	case *types.Interface:
		fact = func(x *Term) *Term { return Lt(IVal(x), al) }
	case *types.Basic:
		w, signed, ok := intInfo(valType)
		if !ok || v.mode == "bv" {
			return
		}
		rlo, rhi := typeRange(w, signed)
		fact = func(x *Term) *Term { return And(Le(IntLitB(rlo), x), Le(x, IntLitB(rhi))) }
	default:
		return
	}
	r := v.fresh("hr", SInt)
	_, vs, _ := arrSorts(h.Sort)
	var ax *Term
	if twoLevel {
		i := v.fresh("hi", SInt)
		_, es, _ := arrSorts(vs)
		// only locations that existed when this heap version was created: memory allocated
		// later (by callees) is modelled as already present in the heap at larger references
		x := Select(Select(h, r), i)
		ax = Forall([]*Term{r, i}, Implies(existed(r, al), fact(x)), mk("select", es, mk("select", vs, h, r), i))
	} else {
		x := Select(h, r)
		ax = Forall([]*Term{r}, Implies(existed(r, al), fact(x)), mk("select", vs, h, r))
	}
	s.pc = append(s.pc, ax)
	v.heapAxOf[h.Op] = ax
	v.heapAxSet[ax] = true
}
func (v *Verifier) sliceHeapSort(elemSort string) string {
	return SArr(SInt, SArr(SInt, elemSort))
}

func (v *Verifier) sliceHeap(s *State, elem types.Type) (name string, h *Term, es string) {
	es = v.sortOf(elem)
	name = v.sliceHeapNameT(elem)
	_, existedBefore := s.heaps[name]
	h = v.getHeap(s, name, v.sliceHeapSort(es))
	if !existedBefore {
		v.refAxiom(s, h, elem, true)
	}
	return name, h, es
}

// readElem reads element i (Int term, relative index) of slice sl.
func (v *Verifier) readElem(s *State, sl *Term, i *Term, elem types.Type) *Term {
	_, h, _ := v.sliceHeap(s, elem)
	val := Select(v.hsel(s, h, SBase(sl)), Add(SOff(sl), i))
	v.noteRead(s, val, elem)
	return val
}

func (v *Verifier) writeElem(s *State, sl *Term, i *Term, elem types.Type, val *Term) {
	name, h, _ := v.sliceHeap(s, elem)
	b := SBase(sl)
	s.heaps[name] = Store(h, b, Store(v.hsel(s, h, b), Add(SOff(sl), i), val))
}

// noteRead adds the type invariant of a value read from memory.
func (v *Verifier) noteRead(s *State, val *Term, t types.Type) {
	if v.inQuant > 0 {
		return
	}
	if val.IsLit {
		return
	}
	switch t.Underlying().(type) {
	case *types.Basic, *types.Slice, *types.Pointer, *types.Map, *types.Interface, *types.Signature, *types.Chan, *types.Struct:
		f := v.typeFacts(s, val, t)
		if !f.isTrue() && val.Size() < 60 {
			s.assume(f)
		}
	}
}

func fieldBase(ref *Term, idx int) *Term {
	// negative bases for array fields of heap structs: -(64*ref + idx + 1)
	return NegI(Add(Mul(IntLit(64), ref), IntLit(int64(idx+1))))
}

func structTypeName(t types.Type) string {
	if n, ok := t.(*types.Named); ok {
		if n.Obj().Pkg() != nil {
			// the package path (not its name) keeps types of equally named packages apart
			// (crypto/ecdsa vs signature/ecdsa, sync vs internal/sync)
			pp := strings.TrimPrefix(n.Obj().Pkg().Path(), repoModule+"/")
			return strings.ReplaceAll(pp, "/", "_") + "." + n.Obj().Name()
		}
		return n.Obj().Name()
	}
	if a, ok := t.(*types.Alias); ok {
		return structTypeName(types.Unalias(a))
	}
	return "anon"
}

// loadField reads field idx of the struct object at ref.
func (v *Verifier) loadField(s *State, ref *Term, st types.Type, idx int) *Term {
	u := st.Underlying().(*types.Struct)
	f := u.Field(idx)
	if at, ok := f.Type().Underlying().(*types.Array); ok {
		_, h, _ := v.sliceHeap(s, at.Elem())
		return v.hsel(s, h, fieldBase(ref, idx))
	}
	fs := v.sortOf(f.Type())
	name := v.heapName("F", structTypeName(st), f.Name())
	_, existedBefore := s.heaps[name]
	h := v.getHeap(s, name, SArr(SInt, fs))
	if !existedBefore {
		v.refAxiom(s, h, f.Type(), false)
	}
	val := v.hsel(s, h, ref)
	v.noteRead(s, val, f.Type())
	return val
}

func (v *Verifier) storeField(s *State, ref *Term, st types.Type, idx int, val *Term) {
	u := st.Underlying().(*types.Struct)
	f := u.Field(idx)
	if at, ok := f.Type().Underlying().(*types.Array); ok {
		name, h, _ := v.sliceHeap(s, at.Elem())
		s.heaps[name] = Store(h, fieldBase(ref, idx), val)
		return
	}
	fs := v.sortOf(f.Type())
	name := v.heapName("F", structTypeName(st), f.Name())
	h := v.getHeap(s, name, SArr(SInt, fs))
	s.heaps[name] = Store(h, ref, val)
}

// loadStruct builds the datatype value of the struct at ref.
func (v *Verifier) loadStruct(s *State, ref *Term, st types.Type) *Term {
	si := v.structInfoOf(st)
	u := st.Underlying().(*types.Struct)
	args := make([]*Term, u.NumFields())
	for i := range args {
		args[i] = v.loadField(s, ref, st, i)
	}
	if len(args) == 0 {
		return Const(si.ctor, si.sort)
	}
	return mk(si.ctor, si.sort, args...)
}

func (v *Verifier) storeStruct(s *State, ref *Term, st types.Type, val *Term) {
	si := v.structInfoOf(st)
	u := st.Underlying().(*types.Struct)
	for i := 0; i < u.NumFields(); i++ {
		v.storeField(s, ref, st, i, acc(si.fields[i], i, si.fsorts[i], val))
	}
}

// cell heaps for pointers to non-struct, non-array values
func (v *Verifier) cellHeap(s *State, t types.Type) (string, *Term) {
	es := v.sortOf(t)
	name := "P_" + sortTag(es)
	return name, v.getHeap(s, name, SArr(SInt, es))
}

// loadPtr dereferences pointer p to a value of type t.
func (v *Verifier) loadPtr(s *State, p *Term, t types.Type) *Term {
	switch u := t.Underlying().(type) {
	case *types.Struct:
		return v.loadStruct(s, p, t)
	case *types.Array:
		_, h, _ := v.sliceHeap(s, u.Elem())
		return v.hsel(s, h, p)
	}
	_, h := v.cellHeap(s, t)
	val := v.hsel(s, h, p)
	v.noteRead(s, val, t)
	return val
}

func (v *Verifier) storePtr(s *State, p *Term, t types.Type, val *Term) {
	switch u := t.Underlying().(type) {
	case *types.Struct:
		v.storeStruct(s, p, t, val)
		return
	case *types.Array:
		name, h, _ := v.sliceHeap(s, u.Elem())
		s.heaps[name] = Store(h, p, val)
		return
	}
	name, h := v.cellHeap(s, t)
	s.heaps[name] = Store(h, p, val)
}

// allocRef returns a fresh reference (or base) and bumps the allocator.
func (v *Verifier) allocRef(s *State) *Term {
	r := s.alloc
	if r.Size() > 8 {
		n := v.fresh("ref", SInt)
		s.assume(Eq(n, r))
		r = n
	}
	v.refRank[r.String()] = s.arank
	s.arank++
	s.alloc = Add(r, IntLit(1))
	v.allocRank[s.alloc.String()] = s.arank
	return r
}

// bumpAlloc replaces the allocator by a fresh, not smaller one (after a call).
func (v *Verifier) bumpAlloc(s *State) {
	na := v.fresh("alloc", SInt)
	s.assume(Ge(na, s.alloc))
	s.alloc = na
	s.arank++
	v.allocRank[na.String()] = s.arank
}

// olderThan returns the smallest allocation rank A such that `t < alloc_A` is assumed.
func (v *Verifier) olderThan(s *State, t *Term) (int, bool) {
	if t.isInt() {
		return 0, t.Int.Sign() >= 0 && t.Int.Cmp(big.NewInt(1)) < 0 // 0 (nil) precedes everything
	}
	ts := t.String()
	best, ok := 0, false
	for _, p := range s.pc {
		if p.Op == "<" && len(p.Args) == 2 && p.Args[0].String() == ts {
			if r, known := v.allocRank[p.Args[1].String()]; known && (!ok || r < best) {
				best, ok = r, true
			}
		}
	}
	if r, isRef := v.refRank[ts]; isRef && !ok {
		return r + 1, true
	}
	return best, ok
}

// fieldBaseRefRank: t = fieldBase(r, k) for a reference r allocated in this function.
func (v *Verifier) fieldBaseRefRank(t *Term) (int, bool) {
	if t.Op != "+" || t.IsLit {
		return 0, false
	}
	for _, a := range t.Args {
		if a.Op == "*" && len(a.Args) == 2 && a.Args[0].isInt() && a.Args[0].Int.Cmp(big.NewInt(-64)) == 0 {
			r, ok := v.refRank[a.Args[1].String()]
			return r, ok
		}
	}
	return 0, false
}

func isFieldBase(t *Term) bool {
	if t.Op != "+" || t.IsLit {
		return false
	}
	for _, a := range t.Args {
		if a.Op == "*" && len(a.Args) == 2 && a.Args[0].isInt() && a.Args[0].Int.Cmp(big.NewInt(-64)) == 0 {
			return true
		}
	}
	return false
}

// distinctRefs: certainly different references, using allocation order.
func (v *Verifier) distinctRefs(s *State, a, b *Term) bool {
	if distinctConst(a, b) {
		return true
	}
	ra, aNew := v.refRank[a.String()]
	rb, bNew := v.refRank[b.String()]
	if aNew && bNew {
		return ra != rb
	}
	if aNew && isFieldBase(b) || bNew && isFieldBase(a) {
		return true
	}
	// field array of an object allocated in this function vs. an older base
	if ra2, ok := v.fieldBaseRefRank(a); ok {
		if ob, ok := v.olderThan(s, b); ok && ra2 >= ob {
			return true
		}
	}
	if rb2, ok := v.fieldBaseRefRank(b); ok {
		if oa, ok := v.olderThan(s, a); ok && rb2 >= oa {
			return true
		}
	}
	if aNew {
		if ob, ok := v.olderThan(s, b); ok && ra >= ob {
			return true
		}
	}
	if bNew {
		if oa, ok := v.olderThan(s, a); ok && rb >= oa {
			return true
		}
	}
	return false
}

// hsel reads heap h at reference b, skipping stores to certainly different references.
func (v *Verifier) hsel(s *State, h, b *Term) *Term {
	cur := h
	for cur.Op == "store" && len(cur.Args) == 3 {
		if sameTerm(cur.Args[1], b) {
			return cur.Args[2]
		}
		if v.distinctRefs(s, cur.Args[1], b) {
			cur = cur.Args[0]
			continue
		}
		break
	}
	return Select(cur, b)
}

// zeroOf returns the zero value of type t.
func (v *Verifier) zeroOf(t types.Type) *Term {
	switch u := t.Underlying().(type) {
	case *types.Basic:
		if _, _, ok := basicWidth(u); ok {
			return v.intConst(0, t)
		}
		if u.Info()&types.IsBoolean != 0 {
			return TFalse
		}
		if u.Info()&types.IsString != 0 {
			return v.strLit("")
		}
		if u.Kind() == types.UnsafePointer || u.Kind() == types.UntypedNil {
			return IntLit(0)
		}
		if u.Info()&types.IsFloat != 0 {
			v.d.sortsDecl["Float"] = true
			return Const("float.zero", "Float")
		}
	case *types.Slice:
		return NilSlice
	case *types.Array:
		return ConstArray(v.sortOf(t), v.zeroOf(u.Elem()))
	case *types.Pointer, *types.Map, *types.Chan, *types.Signature:
		return IntLit(0)
	case *types.Interface:
		return NilIface
	case *types.TypeParam:
		return NilIface
	case *types.Struct:
		si := v.structInfoOf(t)
		args := make([]*Term, u.NumFields())
		for i := range args {
			args[i] = v.zeroOf(u.Field(i).Type())
		}
		if len(args) == 0 {
			return Const(si.ctor, si.sort)
		}
		return mk(si.ctor, si.sort, args...)
	}
	if _, ok := t.(*types.TypeParam); ok {
		return NilIface
	}
	unsupported("zero value of %s", t)
	return nil
}

func (v *Verifier) strLit(s string) *Term {
	if n, ok := v.d.strLits[s]; ok {
		return Const(n, SStr)
	}
	n := fmt.Sprintf("str!%d", len(v.d.strLits))
	v.d.strLits[s] = n
	if v.d.strByName == nil {
		v.d.strByName = map[string]string{}
	}
	v.d.strByName[n] = s
	v.d.strOrder = append(v.d.strOrder, s)
	return Const(n, SStr)
}

// symbolic value of type t with its type facts assumed.
func (v *Verifier) symbolic(s *State, name string, t types.Type) *Term {
	x := v.fresh(name, v.sortOf(t))
	s.assume(v.typeFacts(s, x, t))
	return x
}

// ---------------- misc ----------------

func derefType(t types.Type) (types.Type, bool) {
	if p, ok := t.Underlying().(*types.Pointer); ok {
		return p.Elem(), true
	}
	return t, false
}

func sortedProps(m map[string]bool) []string {
	out := []string{}
	for k := range m {
		out = append(out, k)
	}
	sort.Strings(out)
	return out
}

// zeroGhost: a freshly allocated zero value of type t gets the default of every ghost
// field declared on *t with a body (e.g. an empty bytes.Buffer holds no bytes).
func (v *Verifier) zeroGhost(s *State, ref *Term, t types.Type) {
	if t == nil {
		return
	}
	want := types.TypeString(types.NewPointer(t), nil)
	for _, gf := range v.eng.ghostFields {
		if gf.Body == nil || len(gf.Params) != 1 {
			continue
		}
		env := v.newEnv(v.pkg.Types).at(s, s)
		pt := env.resolveTypeSafe(gf.Params[0].Type)
		if pt == nil || types.TypeString(pt, nil) != want {
			continue
		}
		rty := env.resolveType(gf.Result)
		h := v.getHeap(s, "GF_"+gf.Name, SArr(SInt, env.sortOfC(rty)))
		val := env.coerceTo(env.tr(gf.Body), rty)
		if rty == bstrType {
			val = CVal{env.bytesOf(val), bstrType}
		}
		s.assume(Eq(v.hsel(s, h, ref), val.T))
	}
}

var skolemSeq int64

func skolemise(t *Term) *Term {
	m := map[string]*Term{}
	for _, b := range t.Binders {
		n := atomic.AddInt64(&skolemSeq, 1)
		m[b.String()] = Const(fmt.Sprintf("sk!%d", n), b.Sort)
	}
	return t.Args[0].Subst(m)
}

// hasExtEq: the term is (a conjunction containing, or an implication ending in) an
// equality of byte strings or arrays.
func hasExtEq(t *Term) bool {
	switch {
	case t.Op == "=" && len(t.Args) == 2:
		so := t.Args[0].Sort
		return so == "BStr" || so == "BStrB" || strings.HasPrefix(so, "(Array Int ")
	case t.Op == "and" && !t.IsLit:
		for _, a := range t.Args {
			if hasExtEq(a) {
				return true
			}
		}
	case t.Op == "=>" && len(t.Args) == 2:
		return hasExtEq(t.Args[1])
	}
	return false
}
