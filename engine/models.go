package main

// Built-in models of a few library functions, and the write-set analysis of calls inside loops.

import (
	"go/token"
	"go/ast"
	"go/types"
	"strings"

	"golang.org/x/tools/go/types/typeutil"
)

// builtinModel returns nil when the call has no built-in model.
func (v *Verifier) builtinModel(s *State, full string, fn *types.Func, recv *Term, args []*Term, call *ast.CallExpr) []*Term {
	switch full {
	case "slices#IndexFunc", "slices#ContainsFunc":
		return v.modelIndexFunc(s, full == "slices#ContainsFunc", args, call)
	case "slices#Delete":
		return v.modelSlicesDelete(s, args, call)
	case "slices#Clone", "bytes#Clone":
		return v.modelClone(s, args, call)
	case "slices#Concat":
		return v.modelConcat(s, call)
	}
	return nil
}

// litPredicate evaluates a single-result function literal (or the literal bound
// to a function value) on a symbolic argument, inside a quantifier: obligations
// raised while evaluating are collected and returned as one condition.
func (v *Verifier) litPredicate(s *State, fv *Term, arg *Term, pos ast.Node) (res *Term, safe *Term) {
	if !fv.isInt() {
		unsupported("higher-order call with unknown function value")
	}
	li, ok := v.lits[int(-fv.Int.Int64()-1000)]
	if !ok {
		unsupported("higher-order call with a non-literal function")
	}
	var conds []*Term
	saveHook := v.obligeHook
	n0 := len(s.pc)
	nb0 := len(s.branches)
	work := s.clone()
	v.obligeHook = func(st *State, g *Term) {
		// the obligation must hold under the branch conditions taken inside the literal
		br := st.branches[min(nb0, len(st.branches)):]
		conds = append(conds, v.substDefs(Implies(And(br...), g), st.pc[min(n0, len(st.pc)):]))
	}
	v.inQuant++
	sig := li.pkg.TypesInfo.TypeOf(li.lit).(*types.Signature)
	pop := v.pushCtx(li.pkg, v.fc, sigResults(sig), li.lit.Body)
	v.scanBoxed(li.lit.Body, li.pkg.TypesInfo)
	if len(li.lit.Type.Params.List) > 0 && len(li.lit.Type.Params.List[0].Names) > 0 {
		if o := li.pkg.TypesInfo.Defs[li.lit.Type.Params.List[0].Names[0]]; o != nil {
			v.declareVar(work, o, arg)
		}
	}
	flows := v.execBlock(work, li.lit.Body.List)
	pop()
	v.inQuant--
	v.obligeHook = saveHook
	// the value is an ite-chain over the return paths, guarded by their branch conditions
	var val *Term
	for i := len(flows) - 1; i >= 0; i-- {
		f := flows[i]
		if f.St.dead || f.Kind != flowReturn || len(f.Ret) != 1 {
			if f.St.dead {
				continue
			}
			unsupported("predicate literal with unsupported control flow")
		}
		defs := f.St.pc[min(n0, len(f.St.pc)):]
		g := v.substDefs(And(f.St.branches[min(nb0, len(f.St.branches)):]...), defs)
		r := v.substDefs(f.Ret[0], defs)
		if val == nil {
			val = r
		} else {
			val = Ite(g, r, val)
		}
	}
	if val == nil {
		unsupported("predicate literal without a return path")
	}
	return val, And(conds...)
}

// substDefs inlines the equations c = t that name intermediate values.
func (v *Verifier) substDefs(t *Term, defs []*Term) *Term {
	m := map[string]*Term{}
	for _, d := range defs {
		for d.Op == "=>" && len(d.Args) == 2 {
			d = d.Args[1] // definitions of fresh constants recorded under a path guard
		}
		if d.Op == "=" && len(d.Args) == 2 && len(d.Args[0].Args) == 0 && !d.Args[0].IsLit && strings.Contains(d.Args[0].Op, "!") {
			m[d.Args[0].Op] = d.Args[1]
		}
	}
	for i := 0; i < 8 && len(m) > 0; i++ {
		n := t.Subst(m)
		if n == t {
			break
		}
		t = n
	}
	return t
}

func (v *Verifier) modelIndexFunc(s *State, contains bool, args []*Term, call *ast.CallExpr) []*Term {
	st, ok := v.typeOf(call.Args[0]).Underlying().(*types.Slice)
	if !ok {
		unsupported("IndexFunc on non-slice")
	}
	sl := args[0]
	j := v.fresh("j", SInt)
	_, h, _ := v.sliceHeap(s, st.Elem())
	elem := Select(v.hsel(s, h, SBase(sl)), Add(SOff(sl), j))
	pj, safe := v.litPredicate(s, args[1], elem, call)
	inr := And(Le(IntLit(0), j), Lt(j, SLen(sl)))
	if !safe.isTrue() {
		v.oblige(s, "nopanic", "predicate", v.forallR([]*Term{j}, Implies(inr, safe)), call.Pos(), "predicate literal does not panic on any element")
	}
	r := v.fresh("idx", SInt)
	pAt := func(i *Term) *Term { return pj.Subst(map[string]*Term{j.Op: i}) }
	k := v.fresh("k", SInt)
	none := v.forallR([]*Term{k}, Implies(And(Le(IntLit(0), k), Lt(k, SLen(sl))), Not(pAt(k))))
	k2 := v.fresh("k", SInt)
	first := And(Le(IntLit(0), r), Lt(r, SLen(sl)), pAt(r), v.forallR([]*Term{k2}, Implies(And(Le(IntLit(0), k2), Lt(k2, r)), Not(pAt(k2)))))
	s.assume(Or(And(Eq(r, IntLit(-1)), none), first))
	if contains {
		return []*Term{Neq(r, IntLit(-1))}
	}
	return []*Term{v.goInt(r)}
}

// slices.Delete(s, i, j): shifts s[j:] down to i, zeroes the vacated tail, returns s[:len-(j-i)].
func (v *Verifier) modelSlicesDelete(s *State, args []*Term, call *ast.CallExpr) []*Term {
	st, ok := v.typeOf(call.Args[0]).Underlying().(*types.Slice)
	if !ok {
		unsupported("slices.Delete on non-slice")
	}
	sl := args[0]
	i := v.idxInt(args[1], v.typeOf(call.Args[1]))
	j := v.idxInt(args[2], v.typeOf(call.Args[2]))
	g := And(Le(IntLit(0), i), Le(i, j), Le(j, SLen(sl)))
	v.oblige(s, "nopanic", "slices.Delete", g, call.Pos(), "slices.Delete: 0 <= i <= j <= len(s)")
	s.assume(g)
	name, h, es := v.sliceHeap(s, st.Elem())
	old := v.hsel(s, h, SBase(sl))
	na := v.fresh("arr", SArr(SInt, es))
	q := v.fresh("q", SInt)
	d := Sub(j, i)
	off := SOff(sl)
	rel := Sub(q, off)
	newLen := Sub(SLen(sl), d)
	body := Eq(Select(na, q),
		Ite(And(Le(i, rel), Lt(rel, newLen)), Select(old, Add(q, d)),
			Ite(And(Le(newLen, rel), Lt(rel, SLen(sl))), zeroOfSort(es), Select(old, q))))
	s.assume(Forall([]*Term{q}, body, mk("select", es, na, q)))
	s.heaps[name] = Store(h, SBase(sl), na)
	return []*Term{MkSlice(SBase(sl), off, newLen, SCap(sl))}
}

// slices.Clone / bytes.Clone: a fresh slice with the same elements (nil stays nil).
func (v *Verifier) modelClone(s *State, args []*Term, call *ast.CallExpr) []*Term {
	st, ok := v.typeOf(call.Args[0]).Underlying().(*types.Slice)
	if !ok {
		unsupported("Clone of non-slice")
	}
	sl := v.name(s, "cl", args[0])
	name, h, es := v.sliceHeap(s, st.Elem())
	old := v.hsel(s, h, SBase(sl))
	na := v.fresh("arr", SArr(SInt, es))
	q := v.fresh("q", SInt)
	body := Eq(Select(na, q), Ite(And(Le(IntLit(0), q), Lt(q, SLen(sl))), Select(old, Add(SOff(sl), q)), zeroOfSort(es)))
	s.assume(Forall([]*Term{q}, body, mk("select", es, na, q)))
	nb := v.allocRef(s)
	s.heaps[name] = Store(h, nb, na)
	cp := v.fresh("cap", SInt)
	s.assume(And(Ge(cp, SLen(sl)), Le(cp, IntLitB(maxLen))))
	isNil := Eq(SBase(sl), IntLit(0))
	if v.entails(s, Not(isNil)) {
		return []*Term{MkSlice(nb, IntLit(0), SLen(sl), cp)}
	}
	return []*Term{Ite(isNil, NilSlice, MkSlice(nb, IntLit(0), SLen(sl), cp))}
}

func (v *Verifier) markCallWrites(ms *loopModSet, call *ast.CallExpr) {
	if tv, ok := v.info.Types[call.Fun]; ok && tv.IsType() {
		return
	}
	if id, ok := ast.Unparen(call.Fun).(*ast.Ident); ok {
		if b, isB := v.info.ObjectOf(id).(*types.Builtin); isB {
			switch b.Name() {
			case "copy", "clear":
				v.markBaseWrite(ms, call.Args[0])
			case "new":
				v.markAlloc(ms, v.typeOf(call.Args[0]))
			case "make":
				v.markAlloc(ms, v.typeOf(call))
			case "append":
				v.markBaseWrite(ms, call.Args[0])
				v.markAlloc(ms, v.typeOf(call))
			case "delete":
				if mt, ok := v.typeOf(call.Args[0]).Underlying().(*types.Map); ok {
					tag := sortTag(v.sortOf(mt.Key())) + "_" + sortTag(v.sortOf(mt.Elem()))
					ms.heapKind["Mh_"+tag] = true
				}
			}
			return
		}
	}
	if _, ok := ast.Unparen(call.Fun).(*ast.FuncLit); ok {
		return // body is inspected by the caller of this function
	}
	fn := typeutil.StaticCallee(v.info, call)
	if fn == nil {
		if sel, ok := ast.Unparen(call.Fun).(*ast.SelectorExpr); ok {
			if selection := v.info.Selections[sel]; selection != nil && selection.Kind() == types.MethodVal {
				fn, _ = selection.Obj().(*types.Func)
			}
		}
	}
	if fn == nil {
		// call of a local variable holding a function literal that is defined inside the
		// region being analysed: the walker inspects the literal's body itself
		if id, ok := ast.Unparen(call.Fun).(*ast.Ident); ok && ms.region != nil {
			if obj := v.info.ObjectOf(id); obj != nil && obj.Pos() >= ms.region.Pos() && obj.Pos() < ms.region.End() && v.definedByFuncLit(ms.region, obj) {
				return
			}
		}
		ms.heapAll = true
		return
	}
	pkgPath, key := funcKey(fn)
	if (pkgPath == "slices" && (key == "Concat" || key == "Clone")) || (pkgPath == "bytes" && key == "Clone") {
		v.markAlloc(ms, v.typeOf(call))
		return
	}
	if pkgPath == "slices" && key == "Delete" {
		v.markBaseWrite(ms, call.Args[0])
		return
	}
	if pkgPath == "slices" && (key == "IndexFunc" || key == "ContainsFunc") {
		return
	}
	fc := v.eng.contracts[pkgPath+"#"+key]
	if fc == nil || fc.Flags["inline"] {
		decl, _ := v.eng.declOf(fn)
		if decl != nil && decl.Body != nil && v.autoInline(fn, decl) {
			return
		}
		ms.heapAll = true
		return
	}
	if fc.Flags["pure"] {
		return
	}
	cls := fc.clauses("assigns")
	if len(cls) == 0 {
		ms.heapAll = true
		return
	}
	sig := fn.Type().(*types.Signature)
	argOf := func(name string) ast.Expr {
		if fc.RecvName == name {
			if sel, ok := ast.Unparen(call.Fun).(*ast.SelectorExpr); ok {
				return sel.X
			}
		}
		for i, p := range fc.Params {
			if p.Name == name && i < len(call.Args) && !(sig.Variadic() && i >= sig.Params().Len()-1) {
				return call.Args[i]
			}
		}
		return nil
	}
	for _, c := range cls {
		for _, a := range c.Args {
			it := a
			if it.Kind == "un" && it.Op == "*" {
				it = it.X
			}
			for it.Kind == "slice" {
				it = it.X
			}
			if it.Kind == "call" && it.X.Kind == "ident" && it.X.Name == "contents" {
				ms.heapAll = true // conservative inside loops
				continue
			}
			switch {
			case it.Kind == "ident" && it.Name == "all":
				ms.heapAll = true
			case it.Kind == "call" && it.X.Kind == "ident" && it.X.Name == "all":
				env := v.newEnv(fn.Pkg())
				for _, arg := range it.Args {
					ms.heapKind[env.heapNameOf(arg)] = true
				}
			case it.Kind == "call" && it.X.Kind == "ident" && it.X.Name == "global":
				ms.globals = true
			case it.Kind == "call" && it.X.Kind == "ident" && v.eng.ghostFields[it.X.Name] != nil:
				ms.heapKind["GF_"+it.X.Name] = true
			case it.Kind == "ident":
				if ae := argOf(it.Name); ae != nil {
					v.markBaseWrite(ms, ae)
				} else {
					ms.heapAll = true
				}
			case it.Kind == "sel" && it.X.Kind == "ident":
				// field of a parameter object
				ae := argOf(it.X.Name)
				if ae == nil {
					ms.heapAll = true
					break
				}
				st, _ := derefType(v.typeOf(ae))
				if stt, ok := st.Underlying().(*types.Struct); ok {
					done := false
					for i := 0; i < stt.NumFields(); i++ {
						if stt.Field(i).Name() == it.Name {
							if at, isArr := stt.Field(i).Type().Underlying().(*types.Array); isArr {
								ms.heapKind[v.sliceHeapNameT(at.Elem())] = true
							} else {
								ms.heapKind[v.heapName("F", structTypeName(st), it.Name)] = true
							}
							done = true
						}
					}
					if !done {
						ms.heapAll = true
					}
				} else {
					ms.heapAll = true
				}
			default:
				ms.heapAll = true
			}
		}
	}
}

// markBaseWrite records that memory reachable through expression e (a slice,
// pointer to array, pointer to struct, or map) may be written.
func (v *Verifier) markBaseWrite(ms *loopModSet, e ast.Expr) {
	t := v.typeOf(e)
	switch u := t.Underlying().(type) {
	case *types.Slice:
		name := v.sliceHeapNameT(u.Elem())
		ms.bases[name] = append(ms.bases[name], e)
	case *types.Pointer:
		switch pu := u.Elem().Underlying().(type) {
		case *types.Array:
			name := v.sliceHeapNameT(pu.Elem())
			ms.bases[name] = append(ms.bases[name], e)
		case *types.Struct:
			for i := 0; i < pu.NumFields(); i++ {
				if at, isArr := pu.Field(i).Type().Underlying().(*types.Array); isArr {
					ms.heapKind[v.sliceHeapNameT(at.Elem())] = true
				} else {
					ms.heapKind[v.heapName("F", structTypeName(u.Elem()), pu.Field(i).Name())] = true
				}
			}
		default:
			ms.heapKind["P_"+sortTag(v.sortOf(u.Elem()))] = true
		}
	case *types.Map:
		tag := sortTag(v.sortOf(u.Key())) + "_" + sortTag(v.sortOf(u.Elem()))
		ms.heapKind["Mh_"+tag] = true
		ms.heapKind["Mv_"+tag] = true
	default:
		ms.heapAll = true
	}
}

// forallR builds a universal quantifier with index variables re-based (see reindexQuant).
func (v *Verifier) forallR(vars []*Term, body *Term) *Term {
	vars, body = v.reindexQuant(append([]*Term(nil), vars...), body)
	return Forall(vars, body)
}

// slices.Concat(s1, ..., sk) with explicit arguments: a fresh slice holding the
// concatenation; nil when the total length is 0 (slices.Grow(nil, 0) is nil).
func (v *Verifier) modelConcat(s *State, call *ast.CallExpr) []*Term {
	if call.Ellipsis.IsValid() || len(call.Args) == 0 || len(call.Args) > 6 {
		unsupported("slices.Concat with a spread argument or too many arguments")
	}
	st, ok := v.typeOf(call.Args[0]).Underlying().(*types.Slice)
	if !ok {
		unsupported("slices.Concat of non-slices")
	}
	parts := make([]*Term, len(call.Args))
	for i, a := range call.Args {
		parts[i] = v.name(s, "cc", v.eval(s, a))
	}
	name, h, es := v.sliceHeap(s, st.Elem())
	na := v.fresh("arr", SArr(SInt, es))
	q := v.fresh("q", SInt)
	total := IntLit(0)
	var body *Term = zeroOfSort(es)
	// build nested ite from the last part backwards
	starts := make([]*Term, len(parts))
	for i, p := range parts {
		starts[i] = total
		total = Add(total, SLen(p))
	}
	for i := len(parts) - 1; i >= 0; i-- {
		p := parts[i]
		in := And(Le(starts[i], q), Lt(q, Add(starts[i], SLen(p))))
		body = Ite(in, Select(v.hsel(s, h, SBase(p)), Add(SOff(p), Sub(q, starts[i]))), body)
	}
	s.assume(Forall([]*Term{q}, Eq(Select(na, q), body), mk("select", es, na, q)))
	s.assume(Le(total, IntLitB(maxLen)))
	nb := v.allocRef(s)
	s.heaps[name] = Store(h, nb, na)
	cp := v.fresh("cap", SInt)
	s.assume(And(Ge(cp, total), Le(cp, IntLitB(maxLen))))
	return []*Term{Ite(Eq(total, IntLit(0)), NilSlice, MkSlice(nb, IntLit(0), total, cp))}
}

// definedByFuncLit: obj is declared in region by `obj := func(...) {...}` and never reassigned there.
func (v *Verifier) definedByFuncLit(region ast.Node, obj types.Object) bool {
	defs, assigns := 0, 0
	ast.Inspect(region, func(n ast.Node) bool {
		as, ok := n.(*ast.AssignStmt)
		if !ok {
			return true
		}
		for i, l := range as.Lhs {
			id, ok := ast.Unparen(l).(*ast.Ident)
			if !ok || v.info.ObjectOf(id) != obj {
				continue
			}
			assigns++
			if as.Tok == token.DEFINE && i < len(as.Rhs) && len(as.Lhs) == len(as.Rhs) {
				if _, isLit := ast.Unparen(as.Rhs[i]).(*ast.FuncLit); isLit {
					defs++
				}
			}
		}
		return true
	})
	return defs == 1 && assigns == 1
}
