package main

// Built-in models of a few library functions, and the write-set analysis of calls inside loops.

import (
	"go/ast"
	"go/types"

	"golang.org/x/tools/go/types/typeutil"
)

// builtinModel returns nil when the call has no built-in model.
func (v *Verifier) builtinModel(s *State, full string, fn *types.Func, recv *Term, args []*Term, call *ast.CallExpr) []*Term {
	return nil
}

func (v *Verifier) markCallWrites(ms *loopModSet, call *ast.CallExpr) {
	if tv, ok := v.info.Types[call.Fun]; ok && tv.IsType() {
		return
	}
	if id, ok := ast.Unparen(call.Fun).(*ast.Ident); ok {
		if b, isB := v.info.ObjectOf(id).(*types.Builtin); isB {
			switch b.Name() {
			case "copy", "clear":
				v.markBaseWrite(ms, call.Args[0])
			case "append":
				v.markBaseWrite(ms, call.Args[0])
			case "delete":
				if mt, ok := v.typeOf(call.Args[0]).Underlying().(*types.Map); ok {
					tag := sortTag(v.sortOf(mt.Key())) + "_" + sortTag(v.sortOf(mt.Elem()))
					ms.heapKind["Mh_"+tag] = true
				}
			case "new", "make":
			}
			return
		}
	}
	if _, ok := ast.Unparen(call.Fun).(*ast.FuncLit); ok {
		return // body is inspected by the caller of this function
	}
	fn := typeutil.StaticCallee(v.info, call)
	if fn == nil {
		if sel, ok := ast.Unparen(call.Fun).(*ast.SelectorExpr); ok {
			if selection := v.info.Selections[sel]; selection != nil && selection.Kind() == types.MethodVal {
				fn, _ = selection.Obj().(*types.Func)
			}
		}
	}
	if fn == nil {
		// call of a local function literal variable: its body is in this function; be conservative
		ms.heapAll = true
		return
	}
	pkgPath, key := funcKey(fn)
	fc := v.eng.contracts[pkgPath+"#"+key]
	if fc == nil || fc.Flags["inline"] {
		decl, _ := v.eng.declOf(fn)
		if decl != nil && decl.Body != nil && v.autoInline(fn, decl) {
			return
		}
		ms.heapAll = true
		return
	}
	if fc.Flags["pure"] {
		return
	}
	cls := fc.clauses("assigns")
	if len(cls) == 0 {
		ms.heapAll = true
		return
	}
	sig := fn.Type().(*types.Signature)
	argOf := func(name string) ast.Expr {
		if fc.RecvName == name {
			if sel, ok := ast.Unparen(call.Fun).(*ast.SelectorExpr); ok {
				return sel.X
			}
		}
		for i, p := range fc.Params {
			if p.Name == name && i < len(call.Args) && !(sig.Variadic() && i >= sig.Params().Len()-1) {
				return call.Args[i]
			}
		}
		return nil
	}
	for _, c := range cls {
		for _, a := range c.Args {
			it := a
			if it.Kind == "un" && it.Op == "*" {
				it = it.X
			}
			for it.Kind == "slice" {
				it = it.X
			}
			switch {
			case it.Kind == "ident" && it.Name == "all":
				ms.heapAll = true
			case it.Kind == "call" && it.X.Kind == "ident" && it.X.Name == "all":
				env := v.newEnv(fn.Pkg())
				for _, arg := range it.Args {
					ms.heapKind[env.heapNameOf(arg)] = true
				}
			case it.Kind == "call" && it.X.Kind == "ident" && it.X.Name == "global":
				ms.globals = true
			case it.Kind == "call" && it.X.Kind == "ident" && v.eng.ghostFields[it.X.Name] != nil:
				ms.heapKind["GF_"+it.X.Name] = true
			case it.Kind == "ident":
				if ae := argOf(it.Name); ae != nil {
					v.markBaseWrite(ms, ae)
				} else {
					ms.heapAll = true
				}
			case it.Kind == "sel" && it.X.Kind == "ident":
				// field of a parameter object
				ae := argOf(it.X.Name)
				if ae == nil {
					ms.heapAll = true
					break
				}
				st, _ := derefType(v.typeOf(ae))
				if stt, ok := st.Underlying().(*types.Struct); ok {
					done := false
					for i := 0; i < stt.NumFields(); i++ {
						if stt.Field(i).Name() == it.Name {
							if at, isArr := stt.Field(i).Type().Underlying().(*types.Array); isArr {
								ms.heapKind[v.sliceHeapName(v.sortOf(at.Elem()))] = true
							} else {
								ms.heapKind[v.heapName("F", structTypeName(st), it.Name)] = true
							}
							done = true
						}
					}
					if !done {
						ms.heapAll = true
					}
				} else {
					ms.heapAll = true
				}
			default:
				ms.heapAll = true
			}
		}
	}
}

// markBaseWrite records that memory reachable through expression e (a slice,
// pointer to array, pointer to struct, or map) may be written.
func (v *Verifier) markBaseWrite(ms *loopModSet, e ast.Expr) {
	t := v.typeOf(e)
	switch u := t.Underlying().(type) {
	case *types.Slice:
		name := v.sliceHeapName(v.sortOf(u.Elem()))
		ms.bases[name] = append(ms.bases[name], e)
	case *types.Pointer:
		switch pu := u.Elem().Underlying().(type) {
		case *types.Array:
			name := v.sliceHeapName(v.sortOf(pu.Elem()))
			ms.bases[name] = append(ms.bases[name], e)
		case *types.Struct:
			for i := 0; i < pu.NumFields(); i++ {
				if at, isArr := pu.Field(i).Type().Underlying().(*types.Array); isArr {
					ms.heapKind[v.sliceHeapName(v.sortOf(at.Elem()))] = true
				} else {
					ms.heapKind[v.heapName("F", structTypeName(u.Elem()), pu.Field(i).Name())] = true
				}
			}
		default:
			ms.heapKind["P_"+sortTag(v.sortOf(u.Elem()))] = true
		}
	case *types.Map:
		tag := sortTag(v.sortOf(u.Key())) + "_" + sortTag(v.sortOf(u.Elem()))
		ms.heapKind["Mh_"+tag] = true
		ms.heapKind["Mv_"+tag] = true
	default:
		ms.heapAll = true
	}
}
