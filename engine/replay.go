package main

// Replay of solver counterexamples against the real code (go test -overlay).

func tryReplay(v *Verifier, o *Oblig, rec map[string]any) {
	replayScalar(v, o, rec)
}
