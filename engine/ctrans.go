package main

// Translation of contract expressions (CExpr) to terms.

import (
	"fmt"
	"go/token"
	"go/types"
	"math/big"
	"strings"
)

type CVal struct {
	T  *Term
	Ty types.Type // nil: mathematical integer / untyped
}

var bstrType = types.NewNamed(types.NewTypeName(token.NoPos, nil, "bstr", nil), types.NewStruct(nil, nil), nil)
var nilMarker = &Term{Op: "<nil>", Sort: "Nil"}

// spec-only fixed-width vector types bvN (N in 1..512)
var bvTypes = map[int]types.Type{}

func bvType(n int) types.Type {
	if t, ok := bvTypes[n]; ok {
		return t
	}
	t := types.NewNamed(types.NewTypeName(token.NoPos, nil, fmt.Sprintf("bv%d", n), nil), types.NewStruct(nil, nil), nil)
	bvTypes[n] = t
	return t
}

func bvTypeWidth(t types.Type) (int, bool) {
	for n, bt := range bvTypes {
		if bt == t {
			return n, true
		}
	}
	return 0, false
}

type CEnv struct {
	v      *Verifier
	pkg    *types.Package
	vars   map[string]CVal
	st     *State
	old    *State
	scope  *types.Scope
	hidden map[string]*types.Var
	self   *Lemma
	sink   *State // where side facts (window definitions, type facts) are recorded
}

func (v *Verifier) newEnv(pkg *types.Package) *CEnv {
	return &CEnv{v: v, pkg: pkg, vars: map[string]CVal{}}
}

func (e *CEnv) at(st, old *State) *CEnv {
	n := *e
	n.st, n.old, n.sink = st, old, st
	return &n
}

// atOld evaluates in the old state but records side facts in the current sink.
func (e *CEnv) atOld() *CEnv {
	n := *e
	n.st = e.old
	return &n
}

// flush moves facts recorded in a read-only state to the sink.
func (e *CEnv) flush(from *State, mark int) {
	if e.sink == nil || from == e.sink || len(from.pc) <= mark {
		return
	}
	extra := append([]*Term(nil), from.pc[mark:]...)
	from.pc = from.pc[:mark]
	e.sink.pc = append(e.sink.pc, extra...)
}
func (e *CEnv) withLoopPre(s *State) *CEnv { return e }

func (e *CEnv) bind(name string, val CVal) *CEnv {
	n := *e
	n.vars = make(map[string]CVal, len(e.vars)+1)
	for k, x := range e.vars {
		n.vars[k] = x
	}
	n.vars[name] = val
	return &n
}

func (e *CEnv) bstrSort() string {
	v := e.v
	name := "BStr"
	if v.mode == "bv" {
		name = "BStrB"
	}
	if !v.d.dtSeen[name] {
		v.d.dtSeen[name] = true
		v.d.datatypes = append(v.d.datatypes, fmt.Sprintf("(declare-datatypes ((%s 0)) (((mk-%s (%s.arr %s) (%s.len Int)))))", name, name, name, SArr(SInt, v.byteSort()), name))
		accessorOf[name+".arr"] = accInfo{0}
		accessorOf[name+".len"] = accInfo{1}
	}
	return name
}

func (e *CEnv) mkBStr(arr, n *Term) *Term {
	s := e.bstrSort()
	if e.st != nil {
		n = e.st.normInt(n)
	}
	return mk("mk-"+s, s, arr, n)
}
func (e *CEnv) bArr(b *Term) *Term {
	s := e.bstrSort()
	return acc(s+".arr", 0, SArr(SInt, e.v.byteSort()), b)
}
func (e *CEnv) bLen(b *Term) *Term {
	s := e.bstrSort()
	return acc(s+".len", 1, SInt, b)
}

// sortOfC: SMT sort of a contract-level type.
func (e *CEnv) sortOfC(t types.Type) string {
	if t == nil {
		return SInt
	}
	if t == bstrType {
		return e.bstrSort()
	}
	if n, ok := bvTypeWidth(t); ok {
		return SBV(n)
	}
	return e.v.sortOf(t)
}

// resolveTypeSafe: resolveType, nil instead of an unsupported-panic for unknown types.
func (e *CEnv) resolveTypeSafe(ct *CType) (t types.Type) {
	defer func() {
		if r := recover(); r != nil {
			t = nil
		}
	}()
	return e.resolveType(ct)
}

func (e *CEnv) resolveType(ct *CType) types.Type {
	switch ct.Kind {
	case "ptr":
		return types.NewPointer(e.resolveType(ct.Elem))
	case "slice":
		return types.NewSlice(e.resolveType(ct.Elem))
	case "map":
		return types.NewMap(e.resolveType(ct.Key), e.resolveType(ct.Elem))
	case "array":
		n := e.tr(ct.Len)
		if !n.T.IsLit {
			unsupported("array length %s is not constant", ct.Len)
		}
		return types.NewArray(e.resolveType(ct.Elem), n.T.Int.Int64())
	}
	name := ct.Name
	switch name {
	case "bstr":
		return bstrType
	case "mathint", "nat", "funcval":
		return nil
	case "any":
		return types.Universe.Lookup("any").Type()
	}
	if strings.HasPrefix(name, "bv") {
		var n int
		if _, err := fmt.Sscanf(name, "bv%d", &n); err == nil && n > 0 && n <= 512 && fmt.Sprintf("bv%d", n) == name {
			return bvType(n)
		}
	}
	if i := strings.Index(name, "."); i >= 0 {
		pn, tn := name[:i], name[i+1:]
		// the package's own name wins over an import of the same name
		// (crypto/ecdh imports crypto/internal/fips140/ecdh)
		if e.pkg != nil && e.pkg.Name() == pn {
			if o := e.pkg.Scope().Lookup(tn); o != nil {
				if _, ok := o.(*types.TypeName); ok {
					return o.Type()
				}
			}
		}
		if ip := e.v.eng.importedPkg(e.pkg, pn); ip != nil {
			if o := ip.Scope().Lookup(tn); o != nil {
				if _, ok := o.(*types.TypeName); ok {
					return o.Type()
				}
			}
		}
		for _, p := range e.v.eng.pkgs {
			if p.Types != nil && p.Types.Name() == pn {
				if o := p.Types.Scope().Lookup(tn); o != nil {
					if _, ok := o.(*types.TypeName); ok {
						return o.Type()
					}
				}
			}
		}
		// imported packages of the current package
		if e.pkg != nil {
			for _, imp := range e.pkg.Imports() {
				if imp.Name() == pn {
					if o := imp.Scope().Lookup(tn); o != nil {
						return o.Type()
					}
				}
			}
		}
		unsupported("unknown type %s", name)
	}
	if e.pkg != nil {
		if o := e.pkg.Scope().Lookup(name); o != nil {
			if _, ok := o.(*types.TypeName); ok {
				return o.Type()
			}
		}
	}
	if o := types.Universe.Lookup(name); o != nil {
		if _, ok := o.(*types.TypeName); ok {
			return o.Type()
		}
	}
	unsupported("unknown type %s", name)
	return nil
}

func (e *CEnv) trBool(x *CExpr) *Term {
	r := e.tr(x)
	if r.T.Sort != SBool {
		unsupported("contract expression %s is not boolean (sort %s)", x, r.T.Sort)
	}
	return r.T
}

func (e *CEnv) lookupIdent(name string) (CVal, bool) {
	if val, ok := e.vars[name]; ok {
		return val, true
	}
	v := e.v
	if v.eng.ghostVars[name] {
		return CVal{v.ghostVal(e.st, name), nil}, true
	}
	// hidden loop variables and locals in scope (loop invariants)
	if e.hidden != nil {
		if o, ok := e.hidden[name]; ok {
			if t, ok := e.st.vars[o]; ok {
				return CVal{t, nil}, true
			}
		}
	}
	if e.scope != nil {
		if _, o := e.scope.LookupParent(name, token.NoPos); o != nil {
			switch ob := o.(type) {
			case *types.Var:
				if ob.Parent() != ob.Pkg().Scope() {
					if v.boxed[ob] && e.st == v.entry {
						// entry state: the parameter's value itself (the box is created in the body)
						if t, ok := e.st.vars[ob]; ok {
							return CVal{t, ob.Type()}, true
						}
					}
					if v.boxed[ob] {
						if ref, ok := e.st.vars[ob]; ok {
							if _, isArr := ob.Type().Underlying().(*types.Array); isArr {
								return CVal{v.loadPtr(e.st, ref, ob.Type()), ob.Type()}, true
							}
							return CVal{v.loadPtr(e.st, ref, ob.Type()), ob.Type()}, true
						}
					}
					if t, ok := e.st.vars[ob]; ok {
						return CVal{t, ob.Type()}, true
					}
					unsupported("contract mentions local %s which has no value here", name)
				}
			}
		}
	}
	switch name {
	case "true":
		return CVal{TTrue, types.Typ[types.Bool]}, true
	case "false":
		return CVal{TFalse, types.Typ[types.Bool]}, true
	case "nil":
		return CVal{nilMarker, types.Typ[types.UntypedNil]}, true
	}
	if e.pkg != nil {
		if o := e.pkg.Scope().Lookup(name); o != nil {
			switch ob := o.(type) {
			case *types.Const:
				if isString(ob.Type()) || isBool(ob.Type()) {
					return CVal{v.constTerm(ob.Val(), ob.Type()), ob.Type()}, true
				}
				if b, ok := ob.Type().Underlying().(*types.Basic); ok && b.Info()&types.IsUntyped != 0 {
					n, _ := new(big.Int).SetString(ob.Val().ExactString(), 10)
					if n != nil {
						return CVal{IntLitB(n), nil}, true
					}
				}
				return CVal{v.constTerm(ob.Val(), ob.Type()), ob.Type()}, true
			case *types.Var:
				return CVal{v.loadGlobal(e.st, ob), ob.Type()}, true
			}
		}
	}
	if sc, ok := v.eng.specConsts[name]; ok {
		return CVal{IntLitB(sc), nil}, true
	}
	return CVal{}, false
}

// intOf converts a value to a mathematical Int term.
func (e *CEnv) intOf(x CVal) *Term {
	if x.T.Sort == SInt {
		return x.T
	}
	if w, ok := isBVSort(x.T.Sort); ok {
		_, signed, _ := intInfo(x.Ty)
		if x.T.isBV() {
			if signed {
				return IntLitB(toSigned(x.T.Int, w))
			}
			return IntLitB(x.T.Int)
		}
		if signed {
			return Ite(bvCmp("bvslt", x.T, BVLit(0, w)), Sub(bv2nat(x.T), IntLitB(Pow2(w))), bv2nat(x.T))
		}
		return bv2nat(x.T)
	}
	unsupported("expected an integer, got sort %s", x.T.Sort)
	return nil
}

// unify brings two integer operands to a common representation.
func (e *CEnv) unify(a, b CVal) (CVal, CVal) {
	if a.T.Sort == b.T.Sort {
		return a, b
	}
	wa, aBV := isBVSort(a.T.Sort)
	wb, bBV := isBVSort(b.T.Sort)
	switch {
	case aBV && b.T.Sort == SInt && litTree(b.T):
		return a, CVal{litTreeToBV(b.T, wa), a.Ty}
	case bBV && a.T.Sort == SInt && litTree(a.T):
		return CVal{litTreeToBV(a.T, wb), b.Ty}, b
	case aBV && b.T.Sort == SInt:
		return CVal{e.intOf(a), nil}, b
	case bBV && a.T.Sort == SInt:
		return a, CVal{e.intOf(b), nil}
	case aBV && bBV:
		// different widths: go mathematical
		return CVal{e.intOf(a), nil}, CVal{e.intOf(b), nil}
	}
	return a, b
}

func (e *CEnv) tr(x *CExpr) CVal {
	v := e.v
	switch x.Kind {
	case "num":
		return CVal{IntLitB(x.Val), nil}
	case "str":
		return CVal{v.strLit(x.Name), types.Typ[types.String]}
	case "ident":
		if val, ok := e.lookupIdent(x.Name); ok {
			return val
		}
		unsupported("contract: unknown identifier %s", x.Name)
	case "old":
		mark := len(e.old.pc)
		r := e.atOld().tr(x.X)
		e.flush(e.old, mark)
		return r
	case "cond":
		c := e.trBool(x.X)
		a, b := e.unify(e.tr(x.Y), e.tr(x.Z))
		if a.T.Sort != b.T.Sort {
			unsupported("contract: branches of ?: differ in sort: %s", x)
		}
		ty := a.Ty
		if ty == nil {
			ty = b.Ty
		}
		return CVal{Ite(c, a.T, b.T), ty}
	case "forall", "exists":
		inner := e
		var bvars []*Term
		var guards []*Term
		for _, qv := range x.Vars {
			ty := e.resolveType(qv.Type)
			srt := SInt
			var vty types.Type
			if ty != nil {
				if _, _, isInt := intInfo(ty); isInt {
					// quantified integers are mathematical, restricted to the type's range
					w, signed, _ := intInfo(ty)
					c := v.fresh("q_"+qv.Name, SInt)
					lo, hi := typeRange(w, signed)
					guards = append(guards, And(Le(IntLitB(lo), c), Le(c, IntLitB(hi))))
					bvars = append(bvars, c)
					inner = inner.bind(qv.Name, CVal{c, nil})
					continue
				}
				srt = e.sortOfC(ty)
				vty = ty
			}
			c := v.fresh("q_"+qv.Name, srt)
			if ty == bstrType {
				// quantified byte strings range over well-formed values only
				guards = append(guards, Le(IntLit(0), e.bLen(c)))
			}
			bvars = append(bvars, c)
			inner = inner.bind(qv.Name, CVal{c, vty})
		}
		v.inQuant++
		body := inner.trBool(x.X)
		v.inQuant--
		var full *Term
		if x.Kind == "forall" {
			full = Implies(And(guards...), body)
		} else {
			full = And(And(guards...), body)
		}
		bvars, full = v.reindexQuant(bvars, full)
		if x.Kind == "forall" {
			return CVal{Forall(bvars, full), types.Typ[types.Bool]}
		}
		return CVal{Exists(bvars, full), types.Typ[types.Bool]}
	case "un":
		if x.Op == "&" {
			// address of a boxed local variable
			if x.X.Kind == "ident" && e.scope != nil {
				if _, o := e.scope.LookupParent(x.X.Name, token.NoPos); o != nil {
					if ob, ok := o.(*types.Var); ok && v.boxed[ob] {
						if ref, ok := e.st.vars[ob]; ok {
							return CVal{ref, types.NewPointer(ob.Type())}
						}
					}
				}
			}
			unsupported("contract: & of %s (only the address of a local whose address the code takes)", x.X)
		}
		a := e.tr(x.X)
		switch x.Op {
		case "!":
			return CVal{Not(a.T), a.Ty}
		case "-":
			if _, ok := isBVSort(a.T.Sort); ok {
				return CVal{bvNeg(a.T), a.Ty}
			}
			return CVal{NegI(a.T), a.Ty}
		case "^":
			if _, ok := isBVSort(a.T.Sort); ok {
				return CVal{bvNot(a.T), a.Ty}
			}
			unsupported("contract: ^x on mathematical integer")
		case "*":
			pt, ok := a.Ty.Underlying().(*types.Pointer)
			if !ok {
				unsupported("contract: * of non-pointer")
			}
			return CVal{v.loadPtr(e.st, a.T, pt.Elem()), pt.Elem()}
		}
	case "bin":
		return e.trBin(x)
	case "sel":
		return e.trSel(x)
	case "index":
		return e.trIndex(x)
	case "slice":
		return e.trSlice(x)
	case "call":
		return e.trCall(x)
	case "conv":
		ty := e.resolveType(x.Type)
		a := e.tr(x.X)
		return e.convertC(a, ty)
	}
	unsupported("contract expression %s", x)
	return CVal{}
}

func (e *CEnv) isNilCmp(a, b CVal, op string) (*Term, bool) {
	if a.T == nilMarker {
		a, b = b, a
	}
	if b.T != nilMarker {
		return nil, false
	}
	var r *Term
	switch a.T.Sort {
	case SSlice:
		r = Eq(SBase(a.T), IntLit(0))
	case SIface:
		r = Eq(IType(a.T), IntLit(0))
	case SInt:
		r = Eq(a.T, IntLit(0))
	default:
		unsupported("contract: comparison of %s with nil", a.T.Sort)
	}
	if op == "!=" {
		r = Not(r)
	}
	return r, true
}

func (e *CEnv) trBin(x *CExpr) CVal {
	boolT := types.Typ[types.Bool]
	switch x.Op {
	case "&&":
		return CVal{And(e.trBool(x.X), e.trBool(x.Y)), boolT}
	case "||":
		return CVal{Or(e.trBool(x.X), e.trBool(x.Y)), boolT}
	case "==>":
		return CVal{Implies(e.trBool(x.X), e.trBool(x.Y)), boolT}
	case "<==>":
		return CVal{Eq(e.trBool(x.X), e.trBool(x.Y)), boolT}
	}
	a, b := e.tr(x.X), e.tr(x.Y)
	if x.Op == "==" || x.Op == "!=" {
		if r, ok := e.isNilCmp(a, b, x.Op); ok {
			return CVal{r, boolT}
		}
		a, b = e.unify(a, b)
		if a.T.Sort != b.T.Sort {
			unsupported("contract: comparing sorts %s and %s in %s", a.T.Sort, b.T.Sort, x)
		}
		r := Eq(a.T, b.T)
		if x.Op == "!=" {
			r = Not(r)
		}
		return CVal{r, boolT}
	}
	a, b = e.unify(a, b)
	w, isBV := isBVSort(a.T.Sort)
	if isBV {
		_, signed, _ := intInfo(a.Ty)
		if a.Ty == nil {
			_, signed, _ = intInfo(b.Ty)
		}
		ty := a.Ty
		if ty == nil {
			ty = b.Ty
		}
		pre := "bvu"
		if signed {
			pre = "bvs"
		}
		switch x.Op {
		case "<":
			return CVal{bvCmp(pre+"lt", a.T, b.T), boolT}
		case "<=":
			return CVal{bvCmp(pre+"le", a.T, b.T), boolT}
		case ">":
			return CVal{bvCmp(pre+"gt", a.T, b.T), boolT}
		case ">=":
			return CVal{bvCmp(pre+"ge", a.T, b.T), boolT}
		case "+":
			return CVal{bvBin("bvadd", a.T, b.T), ty}
		case "-":
			return CVal{bvBin("bvsub", a.T, b.T), ty}
		case "*":
			return CVal{bvBin("bvmul", a.T, b.T), ty}
		case "/":
			if signed {
				return CVal{bvBin("bvsdiv", a.T, b.T), ty}
			}
			return CVal{bvBin("bvudiv", a.T, b.T), ty}
		case "%":
			if signed {
				return CVal{bvBin("bvsrem", a.T, b.T), ty}
			}
			return CVal{bvBin("bvurem", a.T, b.T), ty}
		case "&":
			return CVal{bvBin("bvand", a.T, b.T), ty}
		case "|":
			return CVal{bvBin("bvor", a.T, b.T), ty}
		case "^":
			return CVal{bvBin("bvxor", a.T, b.T), ty}
		case "&^":
			return CVal{bvBin("bvand", a.T, bvNot(b.T)), ty}
		case "<<":
			return CVal{bvBin("bvshl", a.T, b.T), ty}
		case ">>":
			if signed {
				return CVal{bvBin("bvashr", a.T, b.T), ty}
			}
			return CVal{bvBin("bvlshr", a.T, b.T), ty}
		}
		_ = w
	}
	if a.T.Sort != SInt || b.T.Sort != SInt {
		unsupported("contract: operator %s on sorts %s, %s in %s", x.Op, a.T.Sort, b.T.Sort, x)
	}
	ty := a.Ty
	if ty == nil {
		ty = b.Ty
	}
	if e.v.mode == "bv" {
		ty = nil
	}
	switch x.Op {
	case "<":
		return CVal{Lt(a.T, b.T), boolT}
	case "<=":
		return CVal{Le(a.T, b.T), boolT}
	case ">":
		return CVal{Gt(a.T, b.T), boolT}
	case ">=":
		return CVal{Ge(a.T, b.T), boolT}
	case "+":
		return CVal{Add(a.T, b.T), ty}
	case "-":
		return CVal{Sub(a.T, b.T), ty}
	case "*":
		if !a.T.isInt() && !b.T.isInt() && e.v.inQuant == 0 {
			// operands fixed on this path (case splits) become literals
			if na := e.st.normInt(a.T); na.isInt() {
				a.T = na
			}
			if nb := e.st.normInt(b.T); nb.isInt() {
				b.T = nb
			}
		}
		if !a.T.isInt() && !b.T.isInt() {
			return CVal{e.v.nlMulC(e.st, a.T, b.T), ty}
		}
		return CVal{Mul(a.T, b.T), ty}
	case "/":
		return CVal{Div(a.T, b.T), ty}
	case "%":
		return CVal{Mod(a.T, b.T), ty}
	case "<<":
		if b.T.isInt() {
			return CVal{Mul(a.T, IntLitB(Pow2(int(b.T.Int.Int64())))), ty}
		}
	case ">>":
		if b.T.isInt() {
			return CVal{Div(a.T, IntLitB(Pow2(int(b.T.Int.Int64())))), ty}
		}
	case "&":
		if b.T.isInt() {
			if k, ok := isMask(b.T.Int); ok {
				return CVal{Mod(a.T, IntLitB(Pow2(k))), ty}
			}
		}
		e.v.d.declareFun("band", []string{SInt, SInt}, SInt)
		return CVal{mk("band", SInt, a.T, b.T), ty}
	case "|":
		e.v.d.declareFun("bor", []string{SInt, SInt}, SInt)
		return CVal{mk("bor", SInt, a.T, b.T), ty}
	case "^":
		e.v.d.declareFun("bxor", []string{SInt, SInt}, SInt)
		return CVal{mk("bxor", SInt, a.T, b.T), ty}
	}
	unsupported("contract: operator %s in %s", x.Op, x)
	return CVal{}
}

func (v *Verifier) nlMulC(s *State, a, b *Term) *Term {
	if a.String() > b.String() {
		a, b = b, a
	}
	v.d.declareFun("nlmul", []string{SInt, SInt}, SInt)
	return mk("nlmul", SInt, a, b)
}

func lookupField(t types.Type, name string) (path []int, ft types.Type, ok bool) {
	obj, idx, _ := types.LookupFieldOrMethod(t, true, nil, name)
	if obj == nil {
		// unexported fields need the package: retry by manual walk
		st, _ := derefType(t)
		if s, isS := st.Underlying().(*types.Struct); isS {
			for i := 0; i < s.NumFields(); i++ {
				if s.Field(i).Name() == name {
					return []int{i}, s.Field(i).Type(), true
				}
			}
			// embedded
			for i := 0; i < s.NumFields(); i++ {
				if s.Field(i).Embedded() {
					if p, ft, ok := lookupField(s.Field(i).Type(), name); ok {
						return append([]int{i}, p...), ft, true
					}
				}
			}
		}
		return nil, nil, false
	}
	f, isVar := obj.(*types.Var)
	if !isVar {
		return nil, nil, false
	}
	return idx, f.Type(), true
}

func (e *CEnv) trSel(x *CExpr) CVal {
	v := e.v
	// qualified constant: pkg.Name
	if x.X.Kind == "ident" {
		if _, isVar := e.lookupIdent(x.X.Name); !isVar {
			if ip := v.eng.importedPkg(e.pkg, x.X.Name); ip != nil {
				if o := ip.Scope().Lookup(x.Name); o != nil {
					switch ob := o.(type) {
					case *types.Const:
						return CVal{v.constTerm(ob.Val(), ob.Type()), ob.Type()}
					case *types.Var:
						return CVal{v.loadGlobal(e.st, ob), ob.Type()}
					}
				}
			}
			for _, p := range v.eng.pkgs {
				if p.Types != nil && p.Types.Name() == x.X.Name {
					if o := p.Types.Scope().Lookup(x.Name); o != nil {
						switch ob := o.(type) {
						case *types.Const:
							return CVal{v.constTerm(ob.Val(), ob.Type()), ob.Type()}
						case *types.Var:
							return CVal{v.loadGlobal(e.st, ob), ob.Type()}
						}
					}
				}
			}
			if e.pkg != nil {
				for _, imp := range e.pkg.Imports() {
					if imp.Name() == x.X.Name {
						if o := imp.Scope().Lookup(x.Name); o != nil {
							switch ob := o.(type) {
							case *types.Const:
								return CVal{v.constTerm(ob.Val(), ob.Type()), ob.Type()}
							case *types.Var:
								return CVal{v.loadGlobal(e.st, ob), ob.Type()}
							}
						}
					}
				}
			}
			unsupported("contract: unknown qualified name %s.%s", x.X.Name, x.Name)
		}
	}
	base := e.tr(x.X)
	if base.Ty == nil {
		unsupported("contract: selector %s on untyped value", x)
	}
	path, _, ok := lookupField(base.Ty, x.Name)
	if !ok {
		unsupported("contract: no field %s in %s", x.Name, base.Ty)
	}
	cur, curT := base.T, base.Ty
	for _, fi := range path {
		if pt, isPtr := curT.Underlying().(*types.Pointer); isPtr {
			st := pt.Elem()
			ft := st.Underlying().(*types.Struct).Field(fi).Type()
			cur = v.loadField(e.st, cur, st, fi)
			curT = ft
			continue
		}
		si := v.structInfoOf(curT)
		cur = acc(si.fields[fi], fi, si.fsorts[fi], cur)
		curT = curT.Underlying().(*types.Struct).Field(fi).Type()
	}
	return CVal{cur, curT}
}

func (e *CEnv) trIndex(x *CExpr) CVal {
	v := e.v
	base := e.tr(x.X)
	idx := e.tr(x.Y)
	if base.Ty == bstrType {
		return CVal{Select(e.bArr(base.T), e.intOf(idx)), types.Typ[types.Byte]}
	}
	if base.Ty == nil {
		unsupported("contract: index of untyped %s", x)
	}
	switch u := base.Ty.Underlying().(type) {
	case *types.Slice:
		i := e.intOf(idx)
		_, h, _ := v.sliceHeap(e.st, u.Elem())
		return CVal{Select(v.hsel(e.st, h, SBase(base.T)), Add(SOff(base.T), i)), u.Elem()}
	case *types.Array:
		return CVal{Select(base.T, e.intOf(idx)), u.Elem()}
	case *types.Pointer:
		at, ok := u.Elem().Underlying().(*types.Array)
		if !ok {
			unsupported("contract: index through pointer to %s", u.Elem())
		}
		_, h, _ := v.sliceHeap(e.st, at.Elem())
		return CVal{Select(v.hsel(e.st, h, base.T), e.intOf(idx)), at.Elem()}
	case *types.Map:
		_, _, _, hv := v.mapHeaps(e.st, u)
		k := e.coerceTo(idx, u.Key())
		return CVal{Select(Select(hv, base.T), k.T), u.Elem()}
	case *types.Basic:
		if u.Info()&types.IsString != 0 {
			return CVal{v.strAt(e.st, base.T, e.intOf(idx)), types.Typ[types.Byte]}
		}
	}
	unsupported("contract: index of %s", base.Ty)
	return CVal{}
}

// coerceTo converts a (possibly mathematical) integer to the representation of Go type t.
func (e *CEnv) coerceTo(x CVal, t types.Type) CVal {
	if t == nil {
		if x.T.Sort != SInt {
			return CVal{e.intOf(x), nil}
		}
		return x
	}
	want := e.sortOfC(t)
	if x.T.Sort == want {
		return CVal{x.T, t}
	}
	if w, ok := isBVSort(want); ok && x.T.Sort == SInt {
		return CVal{int2bv(w, x.T), t}
	}
	if _, ok := isBVSort(x.T.Sort); ok && want == SInt {
		return CVal{e.intOf(x), t}
	}
	if w, ok := isBVSort(want); ok {
		if w2, ok2 := isBVSort(x.T.Sort); ok2 {
			_, signed, _ := intInfo(x.Ty)
			switch {
			case w2 > w:
				return CVal{bvExtract(w-1, 0, x.T), t}
			case signed:
				return CVal{bvSignExt(w-w2, x.T), t}
			default:
				return CVal{bvZeroExt(w-w2, x.T), t}
			}
		}
	}
	if x.T == nilMarker {
		return CVal{e.v.zeroOf(t), t}
	}
	if want == SIface && x.Ty != nil {
		return CVal{e.v.toIface(e.st, x.T, x.Ty), t}
	}
	unsupported("contract: cannot use sort %s as %s", x.T.Sort, t)
	return CVal{}
}

func (e *CEnv) convertC(a CVal, ty types.Type) CVal {
	if ty == nil {
		return CVal{e.intOf(a), nil}
	}
	if ty == bstrType {
		return a
	}
	if _, _, isInt := intInfo(ty); isInt {
		if e.v.mode != "bv" {
			// int mode: conversions in contracts are mathematical identities
			return CVal{e.intOf(a), ty}
		}
		return e.coerceTo(a, ty)
	}
	if isString(ty) && a.T.Sort == SSlice {
		return CVal{e.v.bytesToStr(e.st, a.T), ty}
	}
	if a.T.Sort == e.sortOfC(ty) {
		return CVal{a.T, ty}
	}
	return e.coerceTo(a, ty)
}

func (e *CEnv) trSlice(x *CExpr) CVal {
	base := e.tr(x.X)
	var lo, hi *Term
	if x.Y != nil {
		lo = e.intOf(e.tr(x.Y))
	} else {
		lo = IntLit(0)
	}
	if base.Ty == bstrType {
		if x.Z != nil {
			hi = e.intOf(e.tr(x.Z))
		} else {
			hi = e.bLen(base.T)
		}
		return CVal{e.bsub(base.T, lo, hi), bstrType}
	}
	if base.Ty == nil {
		unsupported("contract: slice of untyped %s", x)
	}
	switch u := base.Ty.Underlying().(type) {
	case *types.Slice:
		if x.Z != nil {
			hi = e.intOf(e.tr(x.Z))
		} else {
			hi = SLen(base.T)
		}
		return CVal{MkSlice(SBase(base.T), Add(SOff(base.T), lo), Sub(hi, lo), Sub(SCap(base.T), lo)), base.Ty}
	case *types.Pointer:
		if at, ok := u.Elem().Underlying().(*types.Array); ok {
			if x.Z != nil {
				hi = e.intOf(e.tr(x.Z))
			} else {
				hi = IntLit(at.Len())
			}
			return CVal{MkSlice(base.T, lo, Sub(hi, lo), Sub(IntLit(at.Len()), lo)), types.NewSlice(at.Elem())}
		}
	case *types.Array:
		// slicing an array field of a heap object: handled when the operand is a selector
		if x.X.Kind == "sel" {
			obj := e.tr(x.X.X)
			if pt, ok := obj.Ty.Underlying().(*types.Pointer); ok {
				if path, _, ok := lookupField(pt, x.X.Name); ok && len(path) == 1 {
					if x.Z != nil {
						hi = e.intOf(e.tr(x.Z))
					} else {
						hi = IntLit(u.Len())
					}
					return CVal{MkSlice(fieldBase(obj.T, path[0]), lo, Sub(hi, lo), Sub(IntLit(u.Len()), lo)), types.NewSlice(u.Elem())}
				}
			}
		}
	}
	// a byte-array VALUE (e.g. the result of sha256.Sum256): the byte string of the range
	if at, ok := base.Ty.Underlying().(*types.Array); ok {
		if b, isB := at.Elem().Underlying().(*types.Basic); isB && b.Kind() == types.Uint8 && e.v.mode != "bv" {
			if x.Z != nil {
				hi = e.intOf(e.tr(x.Z))
			} else {
				hi = IntLit(at.Len())
			}
			w := e.v.window(e.st, base.T, lo, Sub(hi, lo))
			return CVal{e.mkBStr(w, Sub(hi, lo)), bstrType}
		}
	}
	unsupported("contract: slice expression %s", x)
	return CVal{}
}

// bytesOf: the byte string held by a []byte, [N]byte, string or bstr value.
func (e *CEnv) bytesOf(x CVal) *Term {
	v := e.v
	if x.Ty == bstrType {
		return x.T
	}
	if x.T == nilMarker {
		return e.mkBStr(ConstArray(SArr(SInt, v.byteSort()), zeroOfSort(v.byteSort())), IntLit(0))
	}
	switch u := x.Ty.Underlying().(type) {
	case *types.Slice:
		_, h, _ := v.sliceHeap(e.st, u.Elem())
		w := v.window(e.st, v.hsel(e.st, h, SBase(x.T)), SOff(x.T), SLen(x.T))
		return e.mkBStr(w, SLen(x.T))
	case *types.Array:
		w := v.window(e.st, x.T, IntLit(0), IntLit(u.Len()))
		return e.mkBStr(w, IntLit(u.Len()))
	case *types.Basic:
		if u.Info()&types.IsString != 0 {
			v.d.declareFun("gstr.bytes", []string{SStr}, SArr(SInt, v.byteSort()))
			n := v.strLen(x.T)
			w := v.window(e.st, mk("gstr.bytes", SArr(SInt, v.byteSort()), x.T), IntLit(0), n)
			return e.mkBStr(w, n)
		}
	case *types.Pointer:
		if at, ok := u.Elem().Underlying().(*types.Array); ok {
			_, h, _ := v.sliceHeap(e.st, at.Elem())
			w := v.window(e.st, v.hsel(e.st, h, x.T), IntLit(0), IntLit(at.Len()))
			return e.mkBStr(w, IntLit(at.Len()))
		}
	}
	unsupported("contract: bytes() of %s", x.Ty)
	return nil
}

func (e *CEnv) bsub(b, lo, hi *Term) *Term {
	w := e.v.window(e.st, e.bArr(b), lo, Sub(hi, lo))
	return e.mkBStr(w, Sub(hi, lo))
}

// bcat: concatenation as a fresh normalised array with a defining axiom.
func (e *CEnv) bcat(a, b *Term) *Term {
	v := e.v
	if v.inQuant > 0 {
		v.noBoundVars("byte-string concatenation", a, b)
	}
	key := "cat|" + a.String() + "|" + b.String()
	if w, ok := v.windows[key]; ok {
		found := false
		for _, p := range e.st.pc {
			if p == w.axiom {
				found = true
				break
			}
		}
		if !found {
			e.st.pc = append(e.st.pc, w.axiom)
			e.st.pc = append(e.st.pc, w.lemmas...)
		}
		return e.mkBStr(w.c, Add(e.bLen(a), e.bLen(b)))
	}
	es := v.byteSort()
	c := v.fresh("cat", SArr(SInt, es))
	i := v.fresh("ci", SInt)
	la, lb := e.bLen(a), e.bLen(b)
	body := Eq(Select(c, i), Ite(And(Le(IntLit(0), i), Lt(i, la)), Select(e.bArr(a), i),
		Ite(And(Le(la, i), Lt(i, Add(la, lb))), Select(e.bArr(b), Sub(i, la)), zeroOfSort(es))))
	ax := Forall([]*Term{i}, body, mk("select", es, c, i))
	wi := &winInfo{c: c, axiom: ax, kind: "len|" + e.st.normKey(Add(la, lb)).String()}
	v.windows[key] = wi
	e.st.pc = append(e.st.pc, ax)
	v.extLemmas(e.st, wi)
	return e.mkBStr(c, Add(la, lb))
}

// normFact: a BStr-valued uninterpreted application is normalised.
func (e *CEnv) normFact(b *Term) *Term {
	v := e.v
	es := v.byteSort()
	i := v.fresh("ni", SInt)
	arr := e.bArr(b)
	n := e.bLen(b)
	var rng *Term = TTrue
	if es == SInt {
		rng = And(Le(IntLit(0), Select(arr, i)), Le(Select(arr, i), IntLit(255)))
	}
	return And(Le(IntLit(0), n),
		Forall([]*Term{i}, And(Implies(Or(Lt(i, IntLit(0)), Ge(i, n)), Eq(Select(arr, i), zeroOfSort(es))), rng), mk("select", es, arr, i)))
}

func (e *CEnv) trCall(x *CExpr) CVal {
	v := e.v
	boolT := types.Typ[types.Bool]
	// qualified spec function: spec.f / pkg.f
	name := ""
	switch x.X.Kind {
	case "ident":
		name = x.X.Name
	case "sel":
		if x.X.X.Kind == "ident" {
			name = x.X.X.Name + "." + x.X.Name
			if x.X.X.Name == "spec" {
				name = x.X.Name
			}
		}
	}
	switch name {
	case "len", "cap":
		a := e.tr(x.Args[0])
		if a.Ty == bstrType {
			return CVal{e.bLen(a.T), nil}
		}
		if a.T == nilMarker {
			return CVal{IntLit(0), nil}
		}
		switch u := a.Ty.Underlying().(type) {
		case *types.Slice:
			if name == "len" {
				return CVal{SLen(a.T), nil}
			}
			return CVal{SCap(a.T), nil}
		case *types.Array:
			return CVal{IntLit(u.Len()), nil}
		case *types.Pointer:
			if at, ok := u.Elem().Underlying().(*types.Array); ok {
				return CVal{IntLit(at.Len()), nil}
			}
		case *types.Basic:
			if u.Info()&types.IsString != 0 {
				return CVal{v.strLen(a.T), nil}
			}
		}
		unsupported("contract: %s of %s", name, a.Ty)
	case "bytes":
		return CVal{e.bytesOf(e.tr(x.Args[0])), bstrType}
	case "blen":
		return CVal{e.bLen(e.bytesOf(e.tr(x.Args[0]))), nil}
	case "cat":
		cur := e.bytesOf(e.tr(x.Args[0]))
		for _, a := range x.Args[1:] {
			cur = e.bcat(cur, e.bytesOf(e.tr(a)))
		}
		return CVal{cur, bstrType}
	case "bsub":
		b := e.bytesOf(e.tr(x.Args[0]))
		return CVal{e.bsub(b, e.intOf(e.tr(x.Args[1])), e.intOf(e.tr(x.Args[2]))), bstrType}
	case "bempty":
		return CVal{e.mkBStr(ConstArray(SArr(SInt, v.byteSort()), zeroOfSort(v.byteSort())), IntLit(0)), bstrType}
	case "b1": // single byte string
		a := e.coerceTo(e.tr(x.Args[0]), types.Typ[types.Byte])
		arr := Store(ConstArray(SArr(SInt, v.byteSort()), zeroOfSort(v.byteSort())), IntLit(0), a.T)
		return CVal{e.mkBStr(arr, IntLit(1)), bstrType}
	case "fresh":
		a := e.tr(x.Args[0])
		return CVal{v.freshFact(a, e.old.alloc, e.st.alloc), boolT}
	case "bytesframe": // bytesframe(e1, ..., en): every byte that existed at function entry and lies
		// outside the slices e1..en (as they were at entry; write e[0:cap(e)] for the capacity) has its entry value
		if v.mode == "bv" {
			unsupported("contract: bytesframe in bv mode")
		}
		byteT := types.Typ[types.Uint8]
		_, hNow, _ := v.sliceHeap(e.st, byteT)
		_, hOld, _ := v.sliceHeap(e.old, byteT)
		b := v.fresh("q_fb", SInt)
		i := v.fresh("q_fi", SInt)
		conds := []*Term{existed(b, v.entry.alloc)}
		for _, a := range x.Args {
			o := e.atOld().tr(a)
			if o.T.Sort != SSlice {
				unsupported("contract: bytesframe arguments must be slices")
			}
			conds = append(conds, Not(And(Eq(b, SBase(o.T)), Le(SOff(o.T), i), Lt(i, Add(SOff(o.T), SLen(o.T))))))
		}
		body := Implies(And(conds...), Eq(Select(Select(hNow, b), i), Select(Select(hOld, b), i)))
		return CVal{Forall([]*Term{b, i}, body, Select(Select(hNow, b), i)), boolT}
	case "fieldsframe": // fieldsframe(T.f, ...): every object that existed at function entry has its entry value of field f
		var conj []*Term
		for _, a := range x.Args {
			name := e.heapNameOf(a)
			cur, ok := e.st.heaps[name]
			if !ok {
				continue // never touched on this path: trivially unchanged
			}
			ent, ok := v.entry.heaps[name]
			if !ok {
				unsupported("contract: fieldsframe(%s): no entry version of the heap", a)
			}
			r := v.fresh("q_fr", SInt)
			conj = append(conj, Forall([]*Term{r}, Implies(existed(r, v.entry.alloc), Eq(Select(cur, r), Select(ent, r))), Select(cur, r)))
		}
		return CVal{And(conj...), boolT}
	case "fieldframe1": // fieldframe1(T.f, obj): every object other than obj that existed at function entry has its entry value of field f
		name := e.heapNameOf(x.Args[0])
		cur, ok := e.st.heaps[name]
		if !ok {
			return CVal{TTrue, boolT}
		}
		ent, ok := v.entry.heaps[name]
		if !ok {
			unsupported("contract: fieldframe1(%s): no entry version of the heap", x.Args[0])
		}
		ex := e.tr(x.Args[1])
		r := v.fresh("q_fr", SInt)
		return CVal{Forall([]*Term{r}, Implies(And(existed(r, v.entry.alloc), Neq(r, ex.T)), Eq(Select(cur, r), Select(ent, r))), Select(cur, r)), boolT}
	case "existed": // the object existed before the call
		a := e.tr(x.Args[0])
		var b *Term
		switch a.T.Sort {
		case SSlice:
			b = SBase(a.T)
		default:
			b = a.T
		}
		return CVal{existed(b, e.old.alloc), boolT}
	case "base":
		a := e.tr(x.Args[0])
		if a.T.Sort != SSlice {
			unsupported("contract: base() of non-slice")
		}
		return CVal{SBase(a.T), nil}
	case "off":
		a := e.tr(x.Args[0])
		return CVal{SOff(a.T), nil}
	case "ite":
		c := e.trBool(x.Args[0])
		a, b := e.unify(e.tr(x.Args[1]), e.tr(x.Args[2]))
		return CVal{Ite(c, a.T, b.T), a.Ty}
	case "has": // map membership
		m := e.tr(x.Args[0])
		mt, ok := m.Ty.Underlying().(*types.Map)
		if !ok {
			unsupported("contract: has() on non-map")
		}
		_, _, hh, _ := v.mapHeaps(e.st, mt)
		k := e.coerceTo(e.tr(x.Args[1]), mt.Key())
		return CVal{And(Neq(m.T, IntLit(0)), Select(Select(hh, m.T), k.T)), boolT}
	case "typeis": // dynamic type test: typeis(x, T)
		a := e.tr(x.Args[0])
		ty := e.resolveType(cexprToType(x.Args[1]))
		if _, isIface := ty.Underlying().(*types.Interface); isIface {
			// interface target: the dynamic type implements it (as in a type switch)
			v.d.declareFun("implements", []string{SInt, SInt}, SBool)
			return CVal{And(Neq(IType(a.T), IntLit(0)), mk("implements", SBool, IType(a.T), IntLit(int64(v.d.typeID("iface:"+types.TypeString(ty, nil)))))), boolT}
		}
		return CVal{Eq(IType(a.T), IntLit(int64(v.d.typeID(types.TypeString(ty, nil))))), boolT}
	case "as": // as(x, T): payload of interface value x as T
		a := e.tr(x.Args[0])
		ty := e.resolveType(cexprToType(x.Args[1]))
		return CVal{v.fromIface(e.st, a.T, ty), ty}
	case "unchanged":
		a := e.tr(x.Args[0])
		mark := len(e.old.pc)
		o := e.atOld().tr(x.Args[0])
		ob := e.atOld().bytesOf(o)
		e.flush(e.old, mark)
		return CVal{Eq(e.bytesOf(a), ob), boolT}
	case "mathint":
		return CVal{e.intOf(e.tr(x.Args[0])), nil}
	case "abs":
		a := e.intOf(e.tr(x.Args[0]))
		return CVal{Ite(Ge(a, IntLit(0)), a, NegI(a)), nil}
	case "min", "max":
		a, b := e.unify(e.tr(x.Args[0]), e.tr(x.Args[1]))
		ai, bi := e.intOf(a), e.intOf(b)
		if name == "min" {
			return CVal{Ite(Le(ai, bi), a.T, b.T), a.Ty}
		}
		return CVal{Ite(Ge(ai, bi), a.T, b.T), a.Ty}
	case "be128", "le128": // 16-byte array -> 128-bit vector (bv mode)
		a := e.tr(x.Args[0])
		return CVal{e.packBytes(a, 16, name == "be128"), bvType(128)}
	case "unpack128": // 128-bit vector -> 16-byte big-endian byte string (bv mode)
		a := e.tr(x.Args[0])
		if w, ok := isBVSort(a.T.Sort); !ok || w != 128 {
			unsupported("contract: unpack128 needs a bv128 (mode bv)")
		}
		arr := ConstArray(SArr(SInt, v.byteSort()), zeroOfSort(v.byteSort()))
		for i := 0; i < 16; i++ {
			arr = Store(arr, IntLit(int64(i)), bvExtract(127-8*i, 120-8*i, a.T))
		}
		return CVal{e.mkBStr(arr, IntLit(16)), bstrType}
	case "bit": // bit(x, i) of a bit-vector, as Bool
		a := e.tr(x.Args[0])
		i := e.tr(x.Args[1])
		if !i.T.isInt() {
			unsupported("contract: bit index must be constant")
		}
		k := int(i.T.Int.Int64())
		return CVal{Eq(bvExtract(k, k, a.T), BVLit(1, 1)), boolT}
	}
	if gf, ok := v.eng.ghostFields[name]; ok {
		h, key := e.ghostFieldHeap(gf, x.Args[0])
		rty := e.resolveType(gf.Result)
		val := v.hsel(e.st, h, key)
		if rty == bstrType && v.inQuant == 0 && val.Size() < 60 {
			// byte-string values have a non-negative length
			e.st.assume(Le(IntLit(0), e.bLen(val)))
		}
		return CVal{val, rty}
	}
	switch name {
	case "funcof": // function value identity: funcof("pkg/path.Name")
		if len(x.Args) != 1 || x.Args[0].Kind != "str" {
			unsupported("contract: funcof needs a string literal")
		}
		id := v.d.typeID("func:" + x.Args[0].Name)
		return CVal{IntLit(int64(-1000 - id)), nil}
	case "pow2": // 2^n (uninterpreted beyond the facts for 0..64 and positivity)
		v.d.declareFun("pow2", []string{SInt}, SInt)
		return CVal{mk("pow2", SInt, e.intOf(e.tr(x.Args[0]))), nil}
	case "methodof": // method value identity: methodof("(pkg.T).M", recv) for a basic-typed receiver
		if len(x.Args) != 2 || x.Args[0].Kind != "str" {
			unsupported("contract: methodof needs a string literal and a receiver")
		}
		return CVal{v.methodValue(e.st, x.Args[0].Name, e.tr(x.Args[1]).T), nil}
	case "beuint", "leuint": // integer value of the first n bytes of a byte string (n constant)
		b := e.bytesOf(e.tr(x.Args[0]))
		nn := e.tr(x.Args[1])
		if !nn.T.isInt() {
			unsupported("contract: %s needs a constant width", name)
		}
		n := int(nn.T.Int.Int64())
		var sum *Term = IntLit(0)
		for i := 0; i < n; i++ {
			sh := 8 * (n - 1 - i)
			if name == "leuint" {
				sh = 8 * i
			}
			by := Select(e.bArr(b), IntLit(int64(i)))
			if _, isBV := isBVSort(by.Sort); isBV {
				by = bv2nat(by)
			}
			sum = Add(sum, Mul(IntLitB(Pow2(sh)), by))
		}
		return CVal{sum, nil}
	case "bzeros":
		n := e.intOf(e.tr(x.Args[0]))
		return CVal{e.mkBStr(ConstArray(SArr(SInt, v.byteSort()), zeroOfSort(v.byteSort())), n), bstrType}
	case "be", "le": // be(v, n): n-byte big/little-endian encoding of integer v (n constant)
		val := e.tr(x.Args[0])
		nn := e.tr(x.Args[1])
		if !nn.T.isInt() {
			unsupported("contract: %s needs a constant width", name)
		}
		n := int(nn.T.Int.Int64())
		arr := ConstArray(SArr(SInt, v.byteSort()), zeroOfSort(v.byteSort()))
		for i := 0; i < n; i++ {
			sh := 8 * (n - 1 - i)
			if name == "le" {
				sh = 8 * i
			}
			var b *Term
			if w, isBV := isBVSort(val.T.Sort); isBV {
				if sh+7 < w {
					b = bvExtract(sh+7, sh, val.T)
				} else {
					b = BVLit(0, 8)
				}
			} else {
				b = Mod(Div(val.T, IntLitB(Pow2(sh))), IntLit(256))
				if v.mode == "bv" {
					b = int2bv(8, b)
				}
			}
			arr = Store(arr, IntLit(int64(i)), b)
		}
		return CVal{e.mkBStr(arr, IntLit(int64(n))), bstrType}
	}
	// struct constructor: T(f1, ..., fn)
	if x.X.Kind == "ident" && len(x.Args) >= 2 {
		if ty, ok := e.tryType(x.X.Name); ok && ty != nil {
			if st, isS := ty.Underlying().(*types.Struct); isS && st.NumFields() == len(x.Args) {
				si := v.structInfoOf(ty)
				args := make([]*Term, len(x.Args))
				for i, a := range x.Args {
					args[i] = e.coerceTo(e.tr(a), st.Field(i).Type()).T
				}
				return CVal{mk(si.ctor, si.sort, args...), ty}
			}
		}
	}
	// conversion to a named or basic type
	if x.X.Kind == "ident" && len(x.Args) == 1 {
		if ty, ok := e.tryType(x.X.Name); ok {
			return e.convertC(e.tr(x.Args[0]), ty)
		}
	}
	if sf := v.eng.lookupSpec(name, e.pkg); sf != nil {
		return e.applySpec(sf, x.Args)
	}
	unsupported("contract: unknown function %s in %s", name, x)
	return CVal{}
}

func cexprToType(x *CExpr) *CType {
	switch x.Kind {
	case "ident":
		return &CType{Kind: "name", Name: x.Name}
	case "sel":
		if x.X.Kind == "ident" {
			return &CType{Kind: "name", Name: x.X.Name + "." + x.Name}
		}
	case "un":
		if x.Op == "*" {
			return &CType{Kind: "ptr", Elem: cexprToType(x.X)}
		}
	}
	unsupported("contract: %s is not a type", x)
	return nil
}

func (e *CEnv) tryType(name string) (types.Type, bool) {
	switch name {
	case "mathint", "nat":
		return nil, true
	}
	if e.pkg != nil {
		if o := e.pkg.Scope().Lookup(name); o != nil {
			if _, ok := o.(*types.TypeName); ok {
				return o.Type(), true
			}
			return nil, false
		}
	}
	if o := types.Universe.Lookup(name); o != nil {
		if _, ok := o.(*types.TypeName); ok {
			return o.Type(), true
		}
	}
	return nil, false
}

func (e *CEnv) packBytes(a CVal, n int, bigEndian bool) *Term {
	if e.v.mode != "bv" {
		unsupported("contract: be128/le128 need mode bv")
	}
	get := func(i int) *Term {
		if a.Ty == bstrType {
			return Select(e.bArr(a.T), IntLit(int64(i)))
		}
		switch u := a.Ty.Underlying().(type) {
		case *types.Array:
			return Select(a.T, IntLit(int64(i)))
		case *types.Slice:
			_, h, _ := e.v.sliceHeap(e.st, u.Elem())
			return Select(e.v.hsel(e.st, h, SBase(a.T)), Add(SOff(a.T), IntLit(int64(i))))
		}
		unsupported("contract: packBytes of %s", a.Ty)
		return nil
	}
	var cur *Term
	for i := 0; i < n; i++ {
		k := i
		if !bigEndian {
			k = n - 1 - i
		}
		if cur == nil {
			cur = get(k)
		} else {
			cur = bvConcat(cur, get(k))
		}
	}
	return cur
}

func existed(b, alloc0 *Term) *Term {
	return And(Le(Mul(IntLit(-64), alloc0), b), Lt(b, alloc0))
}

// ---------------- spec functions ----------------

func (e *CEnv) applySpec(sf *SpecFunc, argx []*CExpr) CVal {
	v := e.v
	if len(argx) != len(sf.Params) {
		unsupported("contract: %s expects %d arguments", sf.Name, len(sf.Params))
	}
	senv := e
	if sf.Pkg != nil {
		n := *e
		n.pkg = sf.Pkg
		senv = &n
	}
	args := make([]CVal, len(argx))
	ptys := make([]types.Type, len(argx))
	for i, a := range argx {
		ptys[i] = senv.resolveType(sf.Params[i].Type)
		args[i] = e.coerceTo(e.tr(a), ptys[i])
		if ptys[i] == bstrType {
			args[i] = CVal{e.bytesOf(e.tr(a)), bstrType}
		}
	}
	rty := senv.resolveType(sf.Result)
	if sf.Body != nil && !sf.Rec && !sf.Opaque {
		// inline
		inner := &CEnv{v: v, pkg: senv.pkg, vars: map[string]CVal{}, st: e.st, old: e.old}
		for i, p := range sf.Params {
			inner.vars[p.Name] = CVal{args[i].T, ptys[i]}
		}
		r := inner.tr(sf.Body)
		return inner.coerceTo(r, rty)
	}
	var asorts []string
	var aterms []*Term
	for i := range args {
		asorts = append(asorts, e.sortOfC(ptys[i]))
		aterms = append(aterms, args[i].T)
	}
	rs := e.sortOfC(rty)
	fname := "spec." + smtIdent(sf.Name)
	if v.mode == "bv" {
		fname += ".bv"
	}
	v.d.declareFun(fname, asorts, rs)
	if sf.Trusted || sf.Body == nil {
		v.specUsed[sf.Name] = true
	}
	var app *Term
	if len(aterms) == 0 {
		app = Const(fname, rs)
	} else {
		app = mk(fname, rs, aterms...)
	}
	if rty == bstrType && v.inQuant == 0 {
		if containsOp(app, "ite") {
			// patterns must not contain ite: name the application
			// (one name per distinct term: equal applications stay syntactically equal)
			key := app.String()
			c, seen := v.bsNames[key]
			if !seen {
				c = v.fresh("bs", app.Sort)
				if v.bsNames == nil {
					v.bsNames = map[string]*Term{}
				}
				v.bsNames[key] = c
			}
			e.st.assume(Eq(c, app))
			app = c
		}
		e.st.assume(e.normFact(app))
	}
	if rty != nil && rty != bstrType && v.inQuant == 0 && v.mode != "bv" {
		if _, _, isInt := intInfo(rty); isInt {
			e.st.assume(v.rangeFact(app, rty))
		}
	}
	return CVal{app, rty}
}

// applyUnfold: `unfold f(args)` adds the ground instance f(args) == body[args].
func (v *Verifier) applyUnfold(s *State, env *CEnv, c *Clause) {
	for _, a := range c.Args {
		v.unfoldOne(s, env.at(s, env.old), a)
	}
}

func (v *Verifier) unfoldOne(s *State, env *CEnv, a *CExpr) {
	if a.Kind != "call" {
		unsupported("unfold: expected f(args), got %s", a)
	}
	name := ""
	switch a.X.Kind {
	case "ident":
		name = a.X.Name
	case "sel":
		name = a.X.Name
	}
	sf := v.eng.lookupSpec(name, env.pkg)
	if sf == nil || sf.Body == nil {
		unsupported("unfold: %s has no body", name)
	}
	app := env.applySpec(sf, a.Args)
	senv := env
	if sf.Pkg != nil {
		n := *env
		n.pkg = sf.Pkg
		senv = &n
	}
	inner := &CEnv{v: v, pkg: senv.pkg, vars: map[string]CVal{}, st: s, old: env.old}
	for i, p := range sf.Params {
		pty := senv.resolveType(p.Type)
		var av CVal
		if pty == bstrType {
			av = CVal{env.bytesOf(env.tr(a.Args[i])), bstrType}
		} else {
			av = env.coerceTo(env.tr(a.Args[i]), pty)
		}
		inner.vars[p.Name] = CVal{av.T, pty}
	}
	rty := senv.resolveType(sf.Result)
	body := inner.coerceTo(inner.tr(sf.Body), rty)
	s.assume(Eq(app.T, body.T))
}

// applyUse: `use lemma(args)`: the lemma's requires are obligations, its ensures are assumed.
func (v *Verifier) applyUse(s *State, env *CEnv, c *Clause, pos token.Pos) {
	for _, a := range c.Args {
		v.useOne(s, env.at(s, env.old), a, pos)
	}
}

func (v *Verifier) useOne(s *State, env *CEnv, a *CExpr, pos token.Pos) {
	if a.Kind != "call" || a.X.Kind != "ident" {
		unsupported("use: expected lemma(args), got %s", a)
	}
	lm := v.eng.lemmas[a.X.Name]
	if lm == nil {
		unsupported("use: unknown lemma %s", a.X.Name)
	}
	if len(a.Args) != len(lm.Params) {
		unsupported("use: lemma %s expects %d arguments", lm.Name, len(lm.Params))
	}
	inner := &CEnv{v: v, pkg: env.pkg, vars: map[string]CVal{}, st: s, old: env.old}
	for i, p := range lm.Params {
		pty := env.resolveType(p.Type)
		var av CVal
		if pty == bstrType {
			av = CVal{env.bytesOf(env.tr(a.Args[i])), bstrType}
		} else {
			av = env.coerceTo(env.tr(a.Args[i]), pty)
		}
		inner.vars[p.Name] = CVal{av.T, pty}
	}
	for k, r := range lm.Requires {
		v.oblige(s, "pre", fmt.Sprintf("lemma.%s.%d", lm.Name, k+1), inner.trBool(r), pos, "precondition of lemma "+lm.Name)
	}
	for _, u := range lm.Ensures {
		s.assume(inner.trBool(u))
	}
	v.lemmasUsed[lm.Name] = true
}

// heapNameOf maps `T.f` (struct field) to the name of its field heap.
func (e *CEnv) heapNameOf(a *CExpr) string {
	if a.Kind == "sel" && a.X.Kind == "ident" {
		ty, ok := e.tryType(a.X.Name)
		if ok && ty != nil {
			return e.v.heapName("F", structTypeName(ty), a.Name)
		}
	}
	if a.Kind == "sel" && a.X.Kind == "sel" && a.X.X.Kind == "ident" {
		ty := e.resolveType(&CType{Kind: "name", Name: a.X.X.Name + "." + a.X.Name})
		return e.v.heapName("F", structTypeName(ty), a.Name)
	}
	if a.Kind == "ident" {
		return a.Name
	}
	unsupported("assigns all(%s): expected T.field", a)
	return ""
}

func (v *Verifier) ghostVal(s *State, name string) *Term {
	if t, ok := s.ghost[name]; ok {
		return t
	}
	var t *Term
	if s.epoch == 0 {
		t = Const("ghost."+name+"@0", SInt)
	} else {
		t = Const(fmt.Sprintf("ghost.%s@e%d", name, s.epoch), SInt)
	}
	s.ghost[name] = t
	if _, ok := v.entry.ghost[name]; !ok && s.epoch == 0 {
		v.entry.ghost[name] = t
	}
	return t
}

// ghostFieldHeap: ghost fields are maps from object identity to a value.
func (e *CEnv) ghostFieldHeap(gf *SpecFunc, arg *CExpr) (h, key *Term) {
	v := e.v
	rty := e.resolveType(gf.Result)
	a := e.tr(arg)
	switch a.T.Sort {
	case SIface:
		key = IVal(a.T)
	case SInt:
		key = a.T
	default:
		unsupported("ghost field %s of sort %s", gf.Name, a.T.Sort)
	}
	h = v.getHeap(e.st, "GF_"+gf.Name, SArr(SInt, e.sortOfC(rty)))
	return
}

// reindexQuant performs the change of variables a = off + i for a bound integer
// i that is used as an array index only in the form off + i (+ const): the body
// then reads `select arr a`, which E-matching can trigger on, instead of the
// arithmetic term `select arr (+ off i)`.  The transformation is an equivalence.
func (v *Verifier) reindexQuant(bvars []*Term, full *Term) ([]*Term, *Term) {
	vars, body, _ := v.reindexQuantN(bvars, full, 0)
	return vars, body
}

// offsetsOf lists the distinct index offsets (index = offset + b + const) with which
// the bound constant b is used in array reads of t; ok=false if b is used non-linearly.
func offsetsOf(t *Term, b string, bound map[string]bool) (offs []*Term, ok bool) {
	ok = true
	seenKey := map[string]bool{}
	seen := map[*Term]bool{}
	var walk func(t *Term)
	walk = func(t *Term) {
		if !ok || seen[t] || t.IsLit {
			return
		}
		seen[t] = true
		if t.Op == "select" && len(t.Args) == 2 && t.Args[1].Sort == SInt {
			idx := t.Args[1]
			cs := map[string]string{}
			idx.Symbols(cs, map[string]bool{})
			if _, has := cs[b]; has {
				coef, rest, lin := linearIn(idx, b)
				if lin && coef.Sign() == 0 {
					for _, a := range t.Args {
						walk(a)
					}
					return
				}
				if !lin || coef.Cmp(big.NewInt(1)) != 0 {
					ok = false
					return
				}
				m := map[string]*linAtom{}
				c := new(big.Int)
				linAccum(rest, big.NewInt(1), m, c)
				r0 := linBuild(m, new(big.Int))
				rs := map[string]string{}
				r0.Symbols(rs, map[string]bool{})
				for s := range rs {
					if bound[s] {
						ok = false
						return
					}
				}
				if !seenKey[r0.String()] {
					seenKey[r0.String()] = true
					offs = append(offs, r0)
				}
			}
		}
		for _, a := range t.Args {
			walk(a)
		}
	}
	walk(t)
	return
}

// reindexQuantN re-bases each bound index variable on one of its offsets: the
// which-th one for the first variable that has several, the first one otherwise.
// nver is the number of versions (distinct offsets of that variable).
func (v *Verifier) reindexQuantN(bvars []*Term, full *Term, which int) ([]*Term, *Term, int) {
	bvars = append([]*Term(nil), bvars...)
	bound := map[string]bool{}
	for _, b := range bvars {
		bound[b.Op] = true
	}
	nver := 1
	multiDone := false
	for bi, b := range bvars {
		if b.Sort != SInt {
			continue
		}
		offs, ok := offsetsOf(full, b.Op, bound)
		if !ok || len(offs) == 0 {
			continue
		}
		pick := 0
		if len(offs) > 1 && !multiDone {
			multiDone = true
			nver = len(offs)
			pick = which % len(offs)
		}
		off := offs[pick]
		if off.isInt() {
			continue
		}
		a := v.fresh("q_a", SInt)
		full = full.Subst(map[string]*Term{b.Op: Sub(a, off)})
		bvars[bi] = a
		bound[a.Op] = true
	}
	return bvars, full, nver
}

// reindexTerm applies reindexQuant to every quantifier inside t (used for
// assumptions only: goals keep the index arithmetic of the source so that
// their Skolem terms match the patterns of non-reindexable hypotheses).
func (v *Verifier) reindexTerm(t *Term) *Term {
	if t.IsLit || !hasQuant(t) {
		return t
	}
	if t.Op == "forall" || t.Op == "exists" {
		body := v.reindexTerm(t.Args[0])
		vars, nb, nver := v.reindexQuantN(t.Binders, body, 0)
		first := &Term{Op: t.Op, Sort: t.Sort, Binders: vars, Args: append([]*Term{nb}, t.Args[1:]...)}
		if t.Op != "forall" || nver <= 1 || nver > 4 || len(t.Args) > 1 {
			return first
		}
		// an assumed universal whose index variable is used with several offsets is stated
		// once per offset (equivalent versions, each with a clean trigger on its array)
		all := []*Term{first}
		for k := 1; k < nver; k++ {
			vk, nk, _ := v.reindexQuantN(t.Binders, body, k)
			all = append(all, &Term{Op: t.Op, Sort: t.Sort, Binders: vk, Args: []*Term{nk}})
		}
		return And(all...)
	}
	na := make([]*Term, len(t.Args))
	changed := false
	for i, a := range t.Args {
		na[i] = v.reindexTerm(a)
		if na[i] != a {
			changed = true
		}
	}
	if !changed {
		return t
	}
	return rebuild(t, na)
}

// selectPatterns: the distinct innermost `select arr idx` terms whose index contains
// the bound variable x linearly and no nested occurrence: alternative triggers.
func selectPatterns(body *Term, x string) []*Term {
	var out []*Term
	seen := map[string]bool{}
	visited := map[*Term]bool{}
	var walk func(t *Term)
	walk = func(t *Term) {
		if t.IsLit || visited[t] {
			return
		}
		visited[t] = true
		if t.Op == "forall" || t.Op == "exists" {
			return
		}
		if t.Op == "select" && len(t.Args) == 2 && t.Args[1].Sort == SInt {
			cs := map[string]string{}
			t.Args[1].Symbols(cs, map[string]bool{})
			if _, has := cs[x]; has {
				coef, _, lin := linearIn(t.Args[1], x)
				as := map[string]string{}
				t.Args[0].Symbols(as, map[string]bool{})
				_, inArr := as[x]
				if lin && coef != nil && coef.Sign() != 0 && !inArr && !seen[t.String()] && len(out) < 6 {
					seen[t.String()] = true
					out = append(out, t)
				}
			}
		}
		for _, a := range t.Args {
			walk(a)
		}
	}
	walk(body)
	return out
}

// litTree: an Int term built only from literals and ite.
func litTree(t *Term) bool {
	if t.isInt() {
		return true
	}
	return t.Op == "ite" && len(t.Args) == 3 && litTree(t.Args[1]) && litTree(t.Args[2])
}

func litTreeToBV(t *Term, w int) *Term {
	if t.isInt() {
		return BVLitB(t.Int, w)
	}
	return Ite(t.Args[0], litTreeToBV(t.Args[1], w), litTreeToBV(t.Args[2], w))
}

func containsOp(t *Term, op string) bool {
	if t.IsLit {
		return false
	}
	if t.Op == op {
		return true
	}
	for _, a := range t.Args {
		if containsOp(a, op) {
			return true
		}
	}
	return false
}
