package main

func replayScalar(v *Verifier, o *Oblig, rec map[string]any) {}
