package main

// Replay of a solver counterexample on the real code, for functions whose
// parameters, receiver and results are scalars (integers, booleans, errors):
// a Go test is generated that calls the real function with the model's inputs
// and evaluates every `ensures` clause of its contract (translated to Go);
// it is injected with `go test -overlay`, nothing is written into /repo.

import (
	"bytes"
	"encoding/json"
	"fmt"
	"go/types"
	"math/big"
	"os"
	"os/exec"
	"path/filepath"
	"regexp"
	"strings"
)

var valRe = regexp.MustCompile(`\(\s*([A-Za-z_][^\s()]*)\s+(\(-\s*\d+\)|-?\d+|true|false|#x[0-9a-fA-F]+|#b[01]+)\s*\)`)

func parseModelValues(out string) map[string]string {
	m := map[string]string{}
	for _, mt := range valRe.FindAllStringSubmatch(out, -1) {
		val := mt[2]
		if strings.HasPrefix(val, "(-") {
			val = "-" + strings.TrimSpace(strings.Trim(val[2:], " )"))
		}
		if strings.HasPrefix(val, "#x") {
			n, _ := new(big.Int).SetString(val[2:], 16)
			val = n.String()
		} else if strings.HasPrefix(val, "#b") {
			n, _ := new(big.Int).SetString(val[2:], 2)
			val = n.String()
		}
		m[mt[1]] = val
	}
	return m
}

type goPrinter struct {
	v      *Verifier
	env    *CEnv
	vars   map[string]types.Type // contract names of params/results -> Go type
	specs  map[string]string     // generated Go helper functions
	failed string
	depth  int
}

func (g *goPrinter) fail(format string, a ...any) string {
	if g.failed == "" {
		g.failed = fmt.Sprintf(format, a...)
	}
	return "false"
}

func isBoolType(t types.Type) bool { return t != nil && isBool(t) }

// expr prints e as Go; integers are int64, booleans bool.
func (g *goPrinter) expr(e *CExpr, locals map[string]string) (string, string) { // (code, kind: "int"|"bool"|"err")
	switch e.Kind {
	case "num":
		if !e.Val.IsInt64() {
			return g.fail("constant %s does not fit int64", e.Val), "int"
		}
		return fmt.Sprintf("int64(%s)", e.Val.String()), "int"
	case "ident":
		if l, ok := locals[e.Name]; ok {
			return l, "int"
		}
		if e.Name == "true" || e.Name == "false" {
			return e.Name, "bool"
		}
		if e.Name == "nil" {
			return "nil", "err"
		}
		if t, ok := g.vars[e.Name]; ok {
			if isBoolType(t) {
				return "v_" + e.Name, "bool"
			}
			if _, _, isInt := intInfo(t); isInt {
				return "int64(v_" + e.Name + ")", "int"
			}
			if types.Identical(t, types.Universe.Lookup("error").Type()) {
				return "v_" + e.Name, "err"
			}
			return g.fail("variable %s of type %s", e.Name, t), "int"
		}
		if g.env.pkg != nil {
			if o := g.env.pkg.Scope().Lookup(e.Name); o != nil {
				if c, ok := o.(*types.Const); ok {
					if isBoolType(c.Type()) {
						return e.Name, "bool"
					}
					return "int64(" + e.Name + ")", "int"
				}
			}
		}
		return g.fail("identifier %s", e.Name), "int"
	case "un":
		x, k := g.expr(e.X, locals)
		switch e.Op {
		case "!":
			return "(!" + x + ")", "bool"
		case "-":
			return "(-" + x + ")", k
		}
	case "cond":
		c, _ := g.expr(e.X, locals)
		a, k := g.expr(e.Y, locals)
		b, _ := g.expr(e.Z, locals)
		return fmt.Sprintf("gvcIte(%s, %s, %s)", c, a, b), k
	case "bin":
		a, ka := g.expr(e.X, locals)
		b, kb := g.expr(e.Y, locals)
		switch e.Op {
		case "&&", "||":
			return "(" + a + " " + e.Op + " " + b + ")", "bool"
		case "==>":
			return "(!" + a + " || " + b + ")", "bool"
		case "<==>":
			return "(" + a + " == " + b + ")", "bool"
		case "==", "!=", "<", "<=", ">", ">=":
			if ka == "err" || kb == "err" {
				return "(" + a + " " + e.Op + " " + b + ")", "bool"
			}
			return "(" + a + " " + e.Op + " " + b + ")", "bool"
		case "+", "-", "*":
			return "(" + a + " " + e.Op + " " + b + ")", "int"
		case "/":
			return "gvcDiv(" + a + ", " + b + ")", "int"
		case "%":
			return "gvcMod(" + a + ", " + b + ")", "int"
		case "<<":
			return "(" + a + " << uint(" + b + "))", "int"
		case ">>":
			return "(" + a + " >> uint(" + b + "))", "int"
		case "&":
			return "(" + a + " & " + b + ")", "int"
		case "|":
			return "(" + a + " | " + b + ")", "int"
		case "^":
			return "(" + a + " ^ " + b + ")", "int"
		}
	case "call":
		name := ""
		if e.X.Kind == "ident" {
			name = e.X.Name
		}
		if len(e.Args) == 1 {
			if _, isType := g.env.tryType(name); isType {
				x, k := g.expr(e.Args[0], locals)
				return x, k // conversions are identities on mathematical integers
			}
		}
		if name == "abs" {
			x, _ := g.expr(e.Args[0], locals)
			return "gvcAbs(" + x + ")", "int"
		}
		if sf := g.v.eng.lookupSpec(name, g.env.pkg); sf != nil && sf.Body != nil {
			fn := g.specFunc(sf)
			var as []string
			for _, a := range e.Args {
				x, _ := g.expr(a, locals)
				as = append(as, x)
			}
			kind := "int"
			if sf.Result.Kind == "name" && sf.Result.Name == "bool" {
				kind = "bool"
			}
			return fn + "(" + strings.Join(as, ", ") + ")", kind
		}
		return g.fail("call %s", e), "int"
	}
	return g.fail("expression %s", e), "int"
}

func (g *goPrinter) specFunc(sf *SpecFunc) string {
	name := "gvcSpec_" + smtIdent(sf.Name)
	if _, ok := g.specs[name]; ok {
		return name
	}
	g.specs[name] = "" // recursion guard
	g.depth++
	if g.depth > 40 {
		g.fail("spec recursion")
		return name
	}
	locals := map[string]string{}
	var ps []string
	for _, p := range sf.Params {
		locals[p.Name] = "p_" + p.Name
		ps = append(ps, "p_"+p.Name+" int64")
	}
	body, kind := g.expr(sf.Body, locals)
	rt := "int64"
	if kind == "bool" {
		rt = "bool"
	}
	g.specs[name] = fmt.Sprintf("func %s(%s) %s { return %s }\n", name, strings.Join(ps, ", "), rt, body)
	g.depth--
	return name
}

func goLiteral(val string, t types.Type) string {
	if isBoolType(t) {
		return val
	}
	tn := types.TypeString(t, func(p *types.Package) string { return "" })
	n, _ := new(big.Int).SetString(val, 10)
	if n == nil {
		return tn + "(0)"
	}
	// wrap into the type's range (BV models are unsigned)
	w, signed, _ := intInfo(t)
	if w > 0 {
		n.Mod(n, Pow2(w))
		if signed {
			n = toSigned(n, w)
		}
	}
	if n.Sign() < 0 {
		return fmt.Sprintf("%s(%s)", tn, n.String())
	}
	return fmt.Sprintf("%s(%s)", tn, n.String())
}

func replayScalar(v *Verifier, o *Oblig, rec map[string]any) {
	fc := v.fc
	if fc == nil || v.decl == nil || fc.IsLit > 0 || v.sig == nil {
		return
	}
	vals := parseModelValues(o.Model)
	paramIn := o.paramIn
	if paramIn == nil {
		paramIn = v.paramIn
	}
	// all parameters and the receiver must be scalars with model values
	type pv struct {
		cname string
		ty    types.Type
		lit   string
	}
	var params []pv
	var recvLit string
	scalar := func(t types.Type) bool {
		if isBoolType(t) {
			return true
		}
		_, _, ok := intInfo(t)
		return ok
	}
	if v.sig.Recv() != nil {
		rt := v.sig.Recv().Type()
		if !scalar(rt) {
			return
		}
		sym := paramIn[fc.RecvName]
		if sym == nil {
			return
		}
		val, ok := vals[sym.Op]
		if sym.IsLit {
			val, ok = sym.Int.String(), true
		}
		if !ok {
			val = "0"
		}
		recvLit = goLiteral(val, rt)
	}
	vars := map[string]types.Type{}
	if fc.RecvName != "" && v.sig.Recv() != nil {
		vars[fc.RecvName] = v.sig.Recv().Type()
	}
	for i := 0; i < v.sig.Params().Len(); i++ {
		pt := v.sig.Params().At(i).Type()
		if !scalar(pt) || i >= len(fc.Params) {
			return
		}
		sym := paramIn[fc.Params[i].Name]
		val := "0"
		if sym != nil {
			if sym.IsLit && sym.Int != nil {
				val = sym.Int.String()
			} else if sym.IsLit {
				val = sym.Op
			} else if mv, ok := vals[sym.Op]; ok {
				val = mv
			}
		}
		params = append(params, pv{fc.Params[i].Name, pt, goLiteral(val, pt)})
		vars[fc.Params[i].Name] = pt
	}
	errT := types.Universe.Lookup("error").Type()
	for i := 0; i < v.sig.Results().Len(); i++ {
		rt := v.sig.Results().At(i).Type()
		if !scalar(rt) && !types.Identical(rt, errT) {
			return
		}
		if i < len(fc.Results) {
			vars[fc.Results[i].Name] = rt
		}
	}
	if len(fc.Results) != v.sig.Results().Len() {
		return
	}
	env := v.newEnv(v.pkg.Types)
	g := &goPrinter{v: v, env: env, vars: vars, specs: map[string]string{}}
	var checks []string
	for k, c := range fc.clauses("ensures") {
		code, _ := g.expr(c.Expr, map[string]string{})
		if g.failed != "" {
			rec["replay_note"] = "contract clause not executable in replay: " + g.failed
			return
		}
		checks = append(checks, fmt.Sprintf("\tif !(%s) {\n\t\tt.Errorf(\"GVC-REPLAY-FAIL ensures #%d violated: %%s\", %q)\n\t}\n", code, k+1, c.Text))
	}
	var sb strings.Builder
	fmt.Fprintf(&sb, "package %s\n\nimport \"testing\"\n\n", v.pkg.Types.Name())
	sb.WriteString("func gvcIte[T any](c bool, a, b T) T {\n\tif c {\n\t\treturn a\n\t}\n\treturn b\n}\n")
	sb.WriteString("func gvcMod(a, b int64) int64 {\n\tm := a % b\n\tif m < 0 {\n\t\tif b < 0 {\n\t\t\tm -= b\n\t\t} else {\n\t\t\tm += b\n\t\t}\n\t}\n\treturn m\n}\n")
	sb.WriteString("func gvcDiv(a, b int64) int64 { return (a - gvcMod(a, b)) / b }\n")
	sb.WriteString("func gvcAbs(a int64) int64 {\n\tif a < 0 {\n\t\treturn -a\n\t}\n\treturn a\n}\n")
	for _, k := range sortedKeys(g.specs) {
		sb.WriteString(g.specs[k])
	}
	sb.WriteString("\nfunc TestGvcReplay(t *testing.T) {\n")
	sb.WriteString("\tdefer func() {\n\t\tif r := recover(); r != nil {\n\t\t\tt.Errorf(\"GVC-REPLAY-FAIL panic: %v\", r)\n\t\t}\n\t}()\n")
	var argNames []string
	for _, p := range params {
		fmt.Fprintf(&sb, "\tv_%s := %s\n\t_ = v_%s\n", p.cname, p.lit, p.cname)
		argNames = append(argNames, "v_"+p.cname)
	}
	callee := fc.Name
	if v.sig.Recv() != nil {
		rn := fc.RecvName
		if rn == "" {
			rn = "recv"
		}
		fmt.Fprintf(&sb, "\tv_%s := %s\n\t_ = v_%s\n", rn, recvLit, rn)
		callee = "v_" + rn + "." + fc.Name
	}
	var resNames []string
	for _, r := range fc.Results {
		resNames = append(resNames, "v_"+r.Name)
	}
	if len(resNames) > 0 {
		fmt.Fprintf(&sb, "\t%s := %s(%s)\n", strings.Join(resNames, ", "), callee, strings.Join(argNames, ", "))
		for _, r := range resNames {
			fmt.Fprintf(&sb, "\t_ = %s\n", r)
		}
	} else {
		fmt.Fprintf(&sb, "\t%s(%s)\n", callee, strings.Join(argNames, ", "))
	}
	for _, c := range checks {
		sb.WriteString(c)
	}
	sb.WriteString("}\n")
	src := sb.String()
	rec["replay_test"] = src

	// inject with -overlay
	pkgDir := ""
	if len(v.pkg.GoFiles) > 0 {
		pkgDir = filepath.Dir(v.pkg.GoFiles[0])
	}
	if pkgDir == "" {
		return
	}
	work := filepath.Join(verifRoot, "scratch", fmt.Sprintf("replay-%d", os.Getpid()))
	os.MkdirAll(work, 0o755)
	defer os.RemoveAll(work)
	testFile := filepath.Join(work, "zz_gvc_replay_test.go")
	os.WriteFile(testFile, []byte(src), 0o644)
	ov := map[string]map[string]string{"Replace": {filepath.Join(pkgDir, "zz_gvc_replay_test.go"): testFile}}
	ovb, _ := json.Marshal(ov)
	ovFile := filepath.Join(work, "overlay.json")
	os.WriteFile(ovFile, ovb, 0o644)
	cmd := exec.Command("go", "test", "-overlay", ovFile, "-vet=off", "-count=1", "-timeout", "60s", "-run", "^TestGvcReplay$", ".")
	cmd.Dir = pkgDir
	var out bytes.Buffer
	cmd.Stdout = &out
	cmd.Stderr = &out
	err := cmd.Run()
	text := out.String()
	if len(text) > 4000 {
		text = text[:4000]
	}
	rec["replay_output"] = text
	rec["replay_cmd"] = "cd " + pkgDir + " && go test -overlay <overlay adding zz_gvc_replay_test.go> -vet=off -count=1 -timeout 60s -run '^TestGvcReplay$' ."
	if err != nil && strings.Contains(text, "GVC-REPLAY-FAIL") {
		o.replayed = true
		rec["replay"] = "counterexample reproduced on the real code"
	}
}
