package main

// Calls: builtins, calls by contract, inlining, default havoc.

import (
	"fmt"
	"go/ast"
	"go/token"
	"go/types"
	"strings"

	"golang.org/x/tools/go/packages"
	"golang.org/x/tools/go/types/typeutil"
)

func (v *Verifier) evalCall(s *State, call *ast.CallExpr) []*Term {
	// conversion T(x)
	if tv, ok := v.info.Types[call.Fun]; ok && tv.IsType() {
		if len(call.Args) != 1 {
			unsupported("conversion with %d args", len(call.Args))
		}
		x := v.eval(s, call.Args[0])
		return []*Term{v.convert(s, x, v.typeOf(call.Args[0]), tv.Type, call.Pos())}
	}
	// builtins
	if id, ok := ast.Unparen(call.Fun).(*ast.Ident); ok {
		if b, isB := v.info.ObjectOf(id).(*types.Builtin); isB {
			return v.evalBuiltin(s, b.Name(), call)
		}
	}
	// directly applied function literal
	if lit, ok := ast.Unparen(call.Fun).(*ast.FuncLit); ok {
		args := v.evalArgs(s, call, v.typeOf(lit).(*types.Signature))
		return v.inlineLit(s, lit, v.pkg, args, call.Pos())
	}
	fn := typeutil.StaticCallee(v.info, call)
	if fn == nil {
		// interface method call, or call of a function value
		if sel, ok := ast.Unparen(call.Fun).(*ast.SelectorExpr); ok {
			if selection := v.info.Selections[sel]; selection != nil && selection.Kind() == types.MethodVal {
				fn, _ = selection.Obj().(*types.Func)
			}
		}
	}
	if fn == nil {
		// package-level function variable initialised with a named function and never
		// assigned in the package's (non-test) code: a static call of that function
		if id, ok := ast.Unparen(call.Fun).(*ast.Ident); ok {
			if o, _ := v.info.ObjectOf(id).(*types.Var); o != nil && o.Pkg() != nil && o.Parent() == o.Pkg().Scope() && !o.Exported() {
				if init := v.eng.globalInit(o); init != nil && v.globalNeverAssigned(o) {
					if p := v.eng.globPkg[o]; p != nil && p.TypesInfo != nil {
						var fid *ast.Ident
						switch x := ast.Unparen(init).(type) {
						case *ast.Ident:
							fid = x
						case *ast.SelectorExpr:
							fid = x.Sel
						}
						if fid != nil {
							if f, _ := p.TypesInfo.Uses[fid].(*types.Func); f != nil && f.Type().(*types.Signature).Recv() == nil {
								fn = f
							}
						}
					}
				}
			}
		}
	}
	if fn == nil {
		return v.callFuncValue(s, call)
	}
	sig := fn.Type().(*types.Signature)
	if pp, key := funcKey(fn); pp == "slices" && key == "Concat" {
		return v.modelConcat(s, call) // evaluates its own (generic, variadic) arguments
	}
	var recv *Term
	var recvT types.Type
	if sig.Recv() != nil {
		sel := ast.Unparen(call.Fun).(*ast.SelectorExpr)
		recv, recvT = v.evalReceiver(s, sel, fn)
	}
	if recv != nil && recvT != nil {
		if _, isIface := recvT.Underlying().(*types.Interface); isIface {
			v.oblige(s, "nopanic", "nil-iface", Neq(IType(recv), IntLit(0)), call.Pos(), "method call on nil interface value")
			s.assume(Neq(IType(recv), IntLit(0)))
		}
	}
	args := v.evalArgs(s, call, sig)
	return v.callFunc(s, fn, recv, recvT, args, call)
}

// evalArgs evaluates call arguments, packing variadic ones.
func (v *Verifier) evalArgs(s *State, call *ast.CallExpr, sig *types.Signature) []*Term {
	np := sig.Params().Len()
	var args []*Term
	if len(call.Args) == 1 && np > 1 {
		if _, isTuple := v.typeOf(call.Args[0]).(*types.Tuple); isTuple {
			// f(g()) with multi-value g
			return v.evalMulti(s, call.Args[0], np)
		}
	}
	for i, a := range call.Args {
		if sig.Variadic() && i >= np-1 && !call.Ellipsis.IsValid() {
			break
		}
		var pt types.Type
		if i < np {
			pt = sig.Params().At(i).Type()
		}
		args = append(args, v.evalTo(s, a, pt))
	}
	if sig.Variadic() && !call.Ellipsis.IsValid() {
		st := sig.Params().At(np - 1).Type().(*types.Slice)
		extra := call.Args[min(np-1, len(call.Args)):]
		if len(extra) == 0 {
			args = append(args, NilSlice)
		} else {
			es := v.sortOf(st.Elem())
			arr := ConstArray(SArr(SInt, es), v.zeroOf(st.Elem()))
			for i, a := range extra {
				arr = Store(arr, IntLit(int64(i)), v.evalTo(s, a, st.Elem()))
			}
			base := v.allocRef(s)
			name := v.sliceHeapNameT(st.Elem())
			h := v.getHeap(s, name, v.sliceHeapSort(es))
			s.heaps[name] = Store(h, base, arr)
			n := IntLit(int64(len(extra)))
			args = append(args, MkSlice(base, IntLit(0), n, n))
		}
	}
	return args
}

// evalReceiver computes the receiver argument for a method call x.M(...).
func (v *Verifier) evalReceiver(s *State, sel *ast.SelectorExpr, fn *types.Func) (*Term, types.Type) {
	selection := v.info.Selections[sel]
	sig := fn.Type().(*types.Signature)
	want := sig.Recv().Type()
	if selection == nil {
		unsupported("method expression call")
	}
	recvT := selection.Recv()
	path := selection.Index()
	// walk embedded fields (all but the last index, which is the method)
	var cur *Term
	curT := recvT
	addressable := false // cur is a reference to the object rather than its value
	if len(path) > 1 || true {
		// start
		if _, isPtr := recvT.Underlying().(*types.Pointer); isPtr {
			cur = v.eval(s, sel.X)
		} else if id, ok := ast.Unparen(sel.X).(*ast.Ident); ok {
			if o, _ := v.info.ObjectOf(id).(*types.Var); o != nil && v.boxed[o] {
				cur = s.vars[o]
				addressable = true
			}
		}
		if cur == nil {
			// addressable field array or struct value: &p.f handled through addrOf when needed
			if _, wantPtr := want.Underlying().(*types.Pointer); wantPtr {
				if _, isPtr := recvT.Underlying().(*types.Pointer); !isPtr {
					if _, isIface := recvT.Underlying().(*types.Interface); !isIface {
						// pointer method on addressable value
						cur = v.addrOf(s, sel.X)
						addressable = true
					}
				}
			}
		}
		if cur == nil {
			cur = v.eval(s, sel.X)
		}
	}
	for _, fi := range path[:len(path)-1] {
		var stT types.Type
		if pt, isPtr := curT.Underlying().(*types.Pointer); isPtr {
			v.nonNil(s, cur, curT, sel.Pos())
			stT = pt.Elem()
			ft := stT.Underlying().(*types.Struct).Field(fi).Type()
			cur = v.loadField(s, cur, stT, fi)
			curT = ft
			addressable = false
		} else if addressable {
			stT = curT
			ft := stT.Underlying().(*types.Struct).Field(fi).Type()
			cur = v.loadField(s, cur, stT, fi)
			curT = ft
			addressable = false
		} else {
			si := v.structInfoOf(curT)
			cur = acc(si.fields[fi], fi, si.fsorts[fi], cur)
			curT = curT.Underlying().(*types.Struct).Field(fi).Type()
		}
	}
	// now adapt cur (of type curT, or a ref to curT when addressable) to want
	_, wantPtr := want.Underlying().(*types.Pointer)
	_, havePtr := curT.Underlying().(*types.Pointer)
	if _, isIface := want.Underlying().(*types.Interface); isIface {
		return cur, want
	}
	switch {
	case wantPtr && havePtr:
		return cur, want
	case wantPtr && addressable:
		return cur, want
	case wantPtr:
		unsupported("pointer-receiver method %s on non-addressable value at %s", fn.Name(), v.pos(sel.Pos()))
	case !wantPtr && havePtr:
		v.nonNil(s, cur, curT, sel.Pos())
		return v.loadPtr(s, cur, curT.Underlying().(*types.Pointer).Elem()), want
	case !wantPtr && addressable:
		return v.loadPtr(s, cur, curT), want
	}
	return cur, want
}

func (v *Verifier) callFuncValue(s *State, call *ast.CallExpr) []*Term {
	ft := v.typeOf(call.Fun)
	sig, ok := ft.Underlying().(*types.Signature)
	if !ok {
		unsupported("call of non-function %s", ft)
	}
	fv := v.eval(s, call.Fun)
	args := v.evalArgs(s, call, sig)
	if fv.isInt() {
		id := int(-fv.Int.Int64() - 1000)
		if li, ok := v.lits[id]; ok {
			return v.inlineLit(s, li.lit, li.pkg, args, call.Pos())
		}
	}
	// function-type contracts: a contract registered under gvc/functype for the
	// signature of the called value (first contract parameter is the value itself)
	if name, ok := funcTypeContracts[types.TypeString(sig, func(p *types.Package) string { return p.Name() })]; ok {
		if fc := v.eng.contracts["gvc/functype#"+name]; fc != nil {
			ps := []*types.Var{types.NewVar(token.NoPos, v.pkg.Types, "self", types.Typ[types.Int])}
			for i := 0; i < sig.Params().Len(); i++ {
				ps = append(ps, sig.Params().At(i))
			}
			fsig := types.NewSignatureType(nil, nil, nil, types.NewTuple(ps...), sig.Results(), sig.Variadic())
			fake := types.NewFunc(token.NoPos, v.pkg.Types, name, fsig)
			return v.applyContract(s, fc, fake, nil, nil, append([]*Term{fv}, args...), call.Pos())
		}
	}
	// unknown function value: havoc
	v.unspec["call of function value at "+v.pos(call.Pos())] = true
	return v.havocCall(s, sig, "fv")
}

// funcTypeContracts maps a function type to the name of its contract in gvc/functype.
var funcTypeContracts = map[string]string{
	"func() hash.Hash": "hashCtor",
	"func(io.Reader) (*ecdh.PrivateKey, error)": "ecdhGenKey",
	// SLH-DSA hash function fields (internal/signature/slhdsa.params)
	"func(r []byte, pkSeed []byte, pkRoot []byte, msg []byte, m uint32) []byte": "slhHMsg",
	"func(pkSeed []byte, skSeed []byte, adrs *slhdsa.address, n uint32) []byte":  "slhPrf",
	"func(skPrf []byte, optRand []byte, M []byte, n uint32) []byte":             "slhPrfMsg",
	"func(pkSeed []byte, adrs *slhdsa.address, M1 []byte, n uint32) []byte":     "slhF",
	"func(pkSeed []byte, adrs *slhdsa.address, M2 []byte, n uint32) []byte":     "slhH",
	"func(pkSeed []byte, adrs *slhdsa.address, Ml []byte, n uint32) []byte":     "slhTl",
}

func (v *Verifier) havocCall(s *State, sig *types.Signature, hint string) []*Term {
	v.havocAll(s)
	var rs []*Term
	for i := 0; i < sig.Results().Len(); i++ {
		rs = append(rs, v.symbolic(s, hint+"_r", sig.Results().At(i).Type()))
	}
	return rs
}

func funcKey(fn *types.Func) (pkgPath, key string) {
	fn = fn.Origin()
	if fn.Pkg() != nil {
		pkgPath = fn.Pkg().Path()
	}
	sig := fn.Type().(*types.Signature)
	key = fn.Name()
	if sig.Recv() != nil {
		rt := sig.Recv().Type()
		if p, ok := rt.(*types.Pointer); ok {
			rt = p.Elem()
		}
		switch n := rt.(type) {
		case *types.Named:
			key = n.Obj().Name() + "." + fn.Name()
			if n.Obj().Pkg() != nil {
				pkgPath = n.Obj().Pkg().Path()
			}
		case *types.Alias:
			key = n.Obj().Name() + "." + fn.Name()
		default:
			key = "?." + fn.Name()
		}
	}
	return
}

func (v *Verifier) callFunc(s *State, fn *types.Func, recv *Term, recvT types.Type, args []*Term, call *ast.CallExpr) []*Term {
	pkgPath, key := funcKey(fn)
	sig := fn.Type().(*types.Signature)
	full := pkgPath + "#" + key
	if m := v.builtinModel(s, full, fn, recv, args, call); m != nil {
		return m
	}
	fc := v.eng.contracts[full]
	if recvT != nil {
		if it, isIface := recvT.Underlying().(*types.Interface); isIface && recv != nil {
			// devirtualisation: the dynamic type is known on this path and the concrete
			// method is under contract
			if cfc, cfn, ct := v.devirtualize(s, it, fn, recv); cfc != nil {
				crecv := v.fromIface(s, recv, ct)
				return v.applyContract(s, cfc, cfn, crecv, ct, args, call.Pos())
			}
		}
		if _, isIface := recvT.Underlying().(*types.Interface); isIface {
			// a contract on the static interface type of the receiver takes precedence
			if call != nil {
				if sel, ok := ast.Unparen(call.Fun).(*ast.SelectorExpr); ok {
					if selection := v.info.Selections[sel]; selection != nil {
						if n, ok := selection.Recv().(*types.Named); ok && n.Obj().Pkg() != nil {
							if c2 := v.eng.contracts[n.Obj().Pkg().Path()+"#"+n.Obj().Name()+"."+fn.Name()]; c2 != nil {
								fc = c2
							}
						}
					}
				}
			}
		}
	}
	if fc != nil && !fc.Flags["inline"] {
		return v.applyContract(s, fc, fn, recv, recvT, args, call.Pos())
	}
	// inline: marked, or a simple getter-like function of /repo
	decl, dpkg := v.eng.declOf(fn)
	if decl != nil && decl.Body != nil && ((fc != nil && fc.Flags["inline"]) || v.autoInline(fn, decl)) {
		return v.inlineFunc(s, fn, decl, dpkg, fc, recv, args, call.Pos())
	}
	// default: havoc everything
	v.unspec[full] = true
	return v.havocCall(s, sig, fn.Name())
}

// autoInline: generated proto getters and tiny accessors (single return, no loops, no calls to non-getters).
func (v *Verifier) autoInline(fn *types.Func, decl *ast.FuncDecl) bool {
	if v.depth > 6 {
		return false
	}
	if v.eng.autoInl == nil {
		v.eng.autoInl = map[*types.Func]bool{}
	}
	if r, ok := v.eng.autoInl[fn]; ok {
		return r
	}
	ok := true
	nst := 0
	ast.Inspect(decl.Body, func(n ast.Node) bool {
		switch x := n.(type) {
		case *ast.ForStmt, *ast.RangeStmt, *ast.GoStmt, *ast.DeferStmt, *ast.SelectStmt, *ast.FuncLit, *ast.SwitchStmt, *ast.TypeSwitchStmt:
			ok = false
		case *ast.CallExpr:
			// only conversions, len/cap, and other getters
			if id, isId := ast.Unparen(x.Fun).(*ast.Ident); isId && (id.Name == "len" || id.Name == "cap") {
				return true
			}
			if _, dp := v.eng.declOf(fn); dp != nil {
				if tv, has := dp.TypesInfo.Types[x.Fun]; has && tv.IsType() {
					return true
				}
				if callee := typeutil.StaticCallee(dp.TypesInfo, x); callee != nil && callee != fn {
					if cd, _ := v.eng.declOf(callee); cd != nil && strings.HasPrefix(callee.Name(), "Get") {
						return true
					}
				}
			}
			ok = false
		case ast.Stmt:
			nst++
		}
		return ok
	})
	if nst > 8 {
		ok = false
	}
	v.eng.autoInl[fn] = ok
	return ok
}

type litInfo struct {
	lit *ast.FuncLit
	pkg *packages.Package
}

type callCtx struct {
	pkg   *packages.Package
	info  *types.Info
	fc    *FuncContract
	loops map[ast.Node]int
}

func (v *Verifier) pushCtx(pkg *packages.Package, fc *FuncContract, results []*types.Var, body ast.Node) func() {
	old := callCtx{v.pkg, v.info, v.fc, v.loopOrd}
	v.pkg, v.info, v.fc = pkg, pkg.TypesInfo, fc
	v.loopOrd = numberLoops(body)
	v.resStack = append(v.resStack, results)
	v.depth++
	if v.depth > 12 {
		unsupported("inlining too deep")
	}
	return func() {
		v.pkg, v.info, v.fc, v.loopOrd = old.pkg, old.info, old.fc, old.loops
		v.resStack = v.resStack[:len(v.resStack)-1]
		v.depth--
	}
}

func sigResults(sig *types.Signature) []*types.Var {
	var rs []*types.Var
	for i := 0; i < sig.Results().Len(); i++ {
		rs = append(rs, sig.Results().At(i))
	}
	return rs
}

// inlineFunc executes the callee body in the caller's state.  All return
// paths are merged into one state with ite-joined results when there is more
// than one; a callee that forks too much is out of subset.
func (v *Verifier) inlineFunc(s *State, fn *types.Func, decl *ast.FuncDecl, dpkg *packages.Package, fc *FuncContract, recv *Term, args []*Term, pos token.Pos) []*Term {
	sig := fn.Type().(*types.Signature)
	pop := v.pushCtx(dpkg, fc, sigResults(sig), decl.Body)
	defer pop()
	v.scanBoxed(decl.Body, dpkg.TypesInfo)
	v.inlined[fn.FullName()] = true
	if decl.Recv != nil && len(decl.Recv.List) > 0 && len(decl.Recv.List[0].Names) > 0 {
		if o := dpkg.TypesInfo.Defs[decl.Recv.List[0].Names[0]]; o != nil {
			v.declareVar(s, o, recv)
		}
	}
	i := 0
	for _, f := range decl.Type.Params.List {
		for _, n := range f.Names {
			if o := dpkg.TypesInfo.Defs[n]; o != nil && i < len(args) {
				v.declareVar(s, o, args[i])
			}
			i++
		}
		if len(f.Names) == 0 {
			i++
		}
	}
	if decl.Type.Results != nil {
		for _, f := range decl.Type.Results.List {
			for _, n := range f.Names {
				if o := dpkg.TypesInfo.Defs[n]; o != nil {
					v.declareVar(s, o, v.zeroOf(o.Type()))
				}
			}
		}
	}
	return v.runInlined(s, decl.Body, sig, pos)
}

func (v *Verifier) inlineLit(s *State, lit *ast.FuncLit, lpkg *packages.Package, args []*Term, pos token.Pos) []*Term {
	sig := lpkg.TypesInfo.TypeOf(lit).(*types.Signature)
	pop := v.pushCtx(lpkg, v.fc, sigResults(sig), lit.Body)
	defer pop()
	v.scanBoxed(lit.Body, lpkg.TypesInfo)
	i := 0
	for _, f := range lit.Type.Params.List {
		for _, n := range f.Names {
			if o := lpkg.TypesInfo.Defs[n]; o != nil && i < len(args) {
				v.declareVar(s, o, args[i])
			}
			i++
		}
		if len(f.Names) == 0 {
			i++
		}
	}
	if lit.Type.Results != nil {
		for _, f := range lit.Type.Results.List {
			for _, n := range f.Names {
				if o := lpkg.TypesInfo.Defs[n]; o != nil {
					v.declareVar(s, o, v.zeroOf(o.Type()))
				}
			}
		}
	}
	return v.runInlined(s, lit.Body, sig, pos)
}

// runInlined runs a body and joins its return paths into the state *s.
func (v *Verifier) runInlined(s *State, body *ast.BlockStmt, sig *types.Signature, pos token.Pos) []*Term {
	saveDefers := s.defers
	s.defers = nil
	work := s.clone()
	flows := v.execBlock(work, body.List)
	var rets []*Flow
	for _, f := range flows {
		if f.St.dead {
			continue
		}
		switch f.Kind {
		case flowReturn:
			rets = append(rets, f)
		case flowNormal:
			if sig.Results().Len() > 0 {
				unsupported("inlined function falls off the end")
			}
			rets = append(rets, &Flow{St: f.St, Kind: flowReturn})
		default:
			unsupported("break/continue escaping inlined function")
		}
	}
	if len(rets) == 0 {
		s.dead = true
		s.assume(TFalse)
		var rs []*Term
		for i := 0; i < sig.Results().Len(); i++ {
			rs = append(rs, v.zeroOf(sig.Results().At(i).Type()))
		}
		return rs
	}
	for _, f := range rets {
		v.runDefers(f.St)
	}
	if len(rets) == 1 {
		*s = *rets[0].St
		s.defers = saveDefers
		return rets[0].Ret
	}
	// join: the branch conditions taken beyond the common prefix are the path guards;
	// every other fact learnt on a path is kept under its guard
	n0 := len(s.pc)
	nb0 := len(s.branches)
	joined := rets[0].St.clone()
	joined.pc = append([]*Term(nil), s.pc...)
	joined.branches = append([]*Term(nil), s.branches...)
	var guards []*Term
	for _, f := range rets {
		br := f.St.branches[min(nb0, len(f.St.branches)):]
		guards = append(guards, And(br...))
	}
	for i, g := range guards {
		if g.Size() > 12 {
			guards[i] = v.name(joined, "path", g)
		}
	}
	joined.assume(Or(guards...))
	for i, f := range rets {
		isBranch := map[*Term]bool{}
		for _, b := range f.St.branches[min(nb0, len(f.St.branches)):] {
			isBranch[b] = true
		}
		for _, fact := range f.St.pc[min(n0, len(f.St.pc)):] {
			if isBranch[fact] {
				continue
			}
			if v.heapAxSet[fact] || v.axiomSet[fact] {
				joined.pc = append(joined.pc, fact)
				continue
			}
			joined.pc = append(joined.pc, Implies(guards[i], fact))
		}
	}
	nres := sig.Results().Len()
	res := make([]*Term, nres)
	for k := 0; k < nres; k++ {
		cur := rets[len(rets)-1].Ret[k]
		for i := len(rets) - 2; i >= 0; i-- {
			cur = Ite(guards[i], rets[i].Ret[k], cur)
		}
		res[k] = v.name(joined, "inl", cur)
	}
	// heaps / alloc / vars: ite-join
	names := map[string]bool{}
	for _, f := range rets {
		for n := range f.St.heaps {
			names[n] = true
		}
	}
	for n := range names {
		var cur *Term
		for i := len(rets) - 1; i >= 0; i-- {
			h, ok := rets[i].St.heaps[n]
			if !ok {
				h = v.getHeap(rets[i].St, n, v.heapSorts[n])
			}
			if cur == nil {
				cur = h
			} else {
				cur = Ite(guards[i], h, cur)
			}
		}
		joined.heaps[n] = cur
	}
	var al *Term
	for i := len(rets) - 1; i >= 0; i-- {
		if al == nil {
			al = rets[i].St.alloc
		} else {
			al = Ite(guards[i], rets[i].St.alloc, al)
		}
	}
	joined.alloc = v.name(joined, "alloc", al)
	for _, f := range rets {
		joined.arank = max(joined.arank, f.St.arank)
	}
	joined.arank++
	v.allocRank[joined.alloc.String()] = joined.arank
	for o := range s.vars {
		var cur *Term
		same := true
		for i := len(rets) - 1; i >= 0; i-- {
			x, ok := rets[i].St.vars[o]
			if !ok {
				x = s.vars[o]
			}
			if cur == nil {
				cur = x
			} else {
				if !sameTerm(cur, x) {
					same = false
				}
				cur = Ite(guards[i], x, cur)
			}
		}
		if same {
			joined.vars[o] = rets[0].St.vars[o]
		} else {
			joined.vars[o] = cur
		}
	}
	maxEpoch := 0
	for _, f := range rets {
		maxEpoch = max(maxEpoch, f.St.epoch)
	}
	joined.epoch = maxEpoch
	*s = *joined
	s.defers = saveDefers
	return res
}

func (v *Verifier) runDefers(s *State) {
	for i := len(s.defers) - 1; i >= 0; i-- {
		v.evalCall(s, s.defers[i])
	}
	s.defers = nil
}

// ---------------- builtins ----------------

func (v *Verifier) evalBuiltin(s *State, name string, call *ast.CallExpr) []*Term {
	switch name {
	case "len", "cap":
		a := call.Args[0]
		at := v.typeOf(a)
		switch u := at.Underlying().(type) {
		case *types.Slice:
			sl := v.eval(s, a)
			if name == "len" {
				return []*Term{v.goInt(SLen(sl))}
			}
			return []*Term{v.goInt(SCap(sl))}
		case *types.Array:
			return []*Term{v.goInt(IntLit(u.Len()))}
		case *types.Pointer:
			if arr, ok := u.Elem().Underlying().(*types.Array); ok {
				return []*Term{v.goInt(IntLit(arr.Len()))}
			}
		case *types.Basic:
			if u.Info()&types.IsString != 0 {
				str := v.eval(s, a)
				n := v.strLen(str)
				s.assume(And(Le(IntLit(0), n), Le(n, IntLitB(maxLen))))
				return []*Term{v.goInt(n)}
			}
		case *types.Map:
			m := v.eval(s, a)
			v.d.declareFun("map.len", []string{SInt, SInt}, SInt)
			n := mk("map.len", SInt, m, IntLit(int64(s.epoch*1000+v.mapVersion(s, u))))
			s.assume(Le(IntLit(0), n))
			return []*Term{v.goInt(n)}
		}
		unsupported("%s of %s", name, at)
	case "make":
		t := v.typeOf(call)
		switch u := t.Underlying().(type) {
		case *types.Slice:
			n := v.idxInt(v.eval(s, call.Args[1]), v.typeOf(call.Args[1]))
			c := n
			if len(call.Args) > 2 {
				c = v.idxInt(v.eval(s, call.Args[2]), v.typeOf(call.Args[2]))
			}
			g := And(Le(IntLit(0), n), Le(n, c), Le(c, IntLitB(maxLen)))
			v.oblige(s, "nopanic", "make", And(Le(IntLit(0), n), Le(n, c)), call.Pos(), "make: 0 <= len <= cap")
			s.assume(g)
			base := v.allocRef(s)
			es := v.sortOf(u.Elem())
			hn := v.sliceHeapNameT(u.Elem())
			h := v.getHeap(s, hn, v.sliceHeapSort(es))
			s.heaps[hn] = Store(h, base, ConstArray(SArr(SInt, es), v.zeroOf(u.Elem())))
			return []*Term{MkSlice(base, IntLit(0), n, c)}
		case *types.Map:
			return []*Term{v.newMap(s, u)}
		}
		unsupported("make(%s)", t)
	case "new":
		t := v.typeOf(call.Args[0])
		ref := v.allocRef(s)
		v.storePtr(s, ref, t, v.zeroOf(t))
		v.zeroGhost(s, ref, t)
		return []*Term{ref}
	case "copy":
		return []*Term{v.builtinCopy(s, call)}
	case "append":
		return []*Term{v.builtinAppend(s, call)}
	case "min", "max":
		t := v.typeOf(call)
		cur := v.eval(s, call.Args[0])
		for _, a := range call.Args[1:] {
			b := v.eval(s, a)
			var c *Term
			if name == "min" {
				c = v.compare(token.LSS, b, cur, t)
			} else {
				c = v.compare(token.GTR, b, cur, t)
			}
			cur = Ite(c, b, cur)
		}
		return []*Term{cur}
	case "delete":
		mt := v.typeOf(call.Args[0]).Underlying().(*types.Map)
		m := v.eval(s, call.Args[0])
		k := v.eval(s, call.Args[1])
		v.mapDelete(s, m, k, mt)
		return nil
	case "panic":
		v.oblige(s, "nopanic", "panic", TFalse, call.Pos(), "reachable panic(...)")
		s.assume(TFalse)
		return nil
	case "clear":
		at := v.typeOf(call.Args[0])
		if sl, ok := at.Underlying().(*types.Slice); ok {
			x := v.eval(s, call.Args[0])
			v.fillRegion(s, x, sl.Elem(), func(i *Term) *Term { return v.zeroOf(sl.Elem()) })
			return nil
		}
		unsupported("clear(%s)", at)
	case "print", "println":
		return nil
	}
	unsupported("builtin %s", name)
	return nil
}

func (v *Verifier) mapVersion(s *State, mt *types.Map) int {
	hn, _, hh, _ := v.mapHeaps(s, mt)
	_ = hn
	return len(hh.String()) % 997
}

// fillRegion overwrites sl[0:len] so that element i (relative) becomes f(i):
// a fresh array constant with a quantified defining axiom.
func (v *Verifier) fillRegion(s *State, sl *Term, elem types.Type, f func(i *Term) *Term) {
	name, h, es := v.sliceHeap(s, elem)
	base := SBase(sl)
	old := v.hsel(s, h, base)
	na := v.fresh("arr", SArr(SInt, es))
	j := v.fresh("j", SInt)
	rel := Sub(j, SOff(sl))
	in := And(Le(SOff(sl), j), Lt(j, Add(SOff(sl), SLen(sl))))
	v.inQuant++
	body := Eq(Select(na, j), Ite(in, f(rel), Select(old, j)))
	v.inQuant--
	s.assume(Forall([]*Term{j}, body, mk("select", es, na, j)))
	s.heaps[name] = Store(h, base, na)
}

func (v *Verifier) builtinCopy(s *State, call *ast.CallExpr) *Term {
	dt := v.typeOf(call.Args[0])
	dst := v.eval(s, call.Args[0])
	st := v.typeOf(call.Args[1])
	var src *Term
	if isString(st) {
		src = v.strToBytes(s, v.eval(s, call.Args[1]))
	} else {
		src = v.eval(s, call.Args[1])
	}
	elem := dt.Underlying().(*types.Slice).Elem()
	n := Ite(Lt(SLen(dst), SLen(src)), SLen(dst), SLen(src))
	n = v.name(s, "ncopy", n)
	v.copyElems(s, dst, src, n, elem)
	return v.goInt(n)
}

// copyElems: dst[0:n] = src[0:n] (memmove semantics: source read before write).
func (v *Verifier) copyElems(s *State, dst, src, n *Term, elem types.Type) {
	name, h, es := v.sliceHeap(s, elem)
	// small constant n: explicit stores
	if n.isInt() && n.Int.Int64() <= 16 {
		k := int(n.Int.Int64())
		vals := make([]*Term, k)
		for i := 0; i < k; i++ {
			vals[i] = Select(v.hsel(s, h, SBase(src)), Add(SOff(src), IntLit(int64(i))))
		}
		arr := v.hsel(s, h, SBase(dst))
		for i := 0; i < k; i++ {
			arr = Store(arr, Add(SOff(dst), IntLit(int64(i))), vals[i])
		}
		s.heaps[name] = Store(h, SBase(dst), arr)
		return
	}
	srcArr := v.hsel(s, h, SBase(src))
	oldDst := v.hsel(s, h, SBase(dst))
	na := v.fresh("arr", SArr(SInt, es))
	j := v.fresh("j", SInt)
	in := And(Le(SOff(dst), j), Lt(j, Add(SOff(dst), n)))
	body := Eq(Select(na, j), Ite(in, Select(srcArr, Add(SOff(src), Sub(j, SOff(dst)))), Select(oldDst, j)))
	s.assume(Forall([]*Term{j}, body, mk("select", es, na, j)))
	s.heaps[name] = Store(h, SBase(dst), na)
}

// builtinAppend models append(s, xs...) / append(s, t...) without forking:
// in-place when capacity suffices, otherwise a fresh backing array.
func (v *Verifier) builtinAppend(s *State, call *ast.CallExpr) *Term {
	st := v.typeOf(call).Underlying().(*types.Slice)
	elem := st.Elem()
	sl := v.name(s, "app", v.eval(s, call.Args[0]))
	if len(call.Args) == 1 {
		return sl
	}
	name, h, es := v.sliceHeap(s, elem)
	var n *Term
	var srcAt func(i *Term) *Term // element i of the appended sequence, read from the pre-state
	if call.Ellipsis.IsValid() {
		at := v.typeOf(call.Args[1])
		var src *Term
		if isString(at) {
			src = v.strToBytes(s, v.eval(s, call.Args[1]))
			name, h, es = v.sliceHeap(s, elem)
		} else {
			src = v.name(s, "apps", v.eval(s, call.Args[1]))
		}
		n = SLen(src)
		h0 := h
		srcAt = func(i *Term) *Term { return Select(Select(h0, SBase(src)), Add(SOff(src), i)) }
	} else {
		vals := make([]*Term, len(call.Args)-1)
		for i, a := range call.Args[1:] {
			vals[i] = v.evalTo(s, a, elem)
		}
		name, h, es = v.sliceHeap(s, elem)
		n = IntLit(int64(len(vals)))
		srcAt = func(i *Term) *Term {
			cur := vals[len(vals)-1]
			for k := len(vals) - 2; k >= 0; k-- {
				cur = Ite(Eq(i, IntLit(int64(k))), vals[k], cur)
			}
			return cur
		}
	}
	return v.appendModel(s, sl, n, srcAt, name, h, es)
}

func (v *Verifier) appendModel(s *State, sl, n *Term, srcAt func(i *Term) *Term, name string, h *Term, es string) *Term {
	newLen := Add(SLen(sl), n)
	fits := Le(newLen, SCap(sl))
	// decide the capacity test now when the path condition settles it
	if !fits.IsLit {
		if v.entails(s, fits) {
			fits = TTrue
		} else if v.entails(s, Not(fits)) {
			fits = TFalse
		}
	}
	if !fits.IsLit {
		c := v.fresh("fits", SBool)
		s.assume(Eq(c, fits))
		fits = c
		s.splits = append(s.splits, c)
	}
	s.assume(Le(newLen, IntLitB(maxLen)))
	// in-place array
	oldArr := v.hsel(s, h, SBase(sl))
	start := Add(SOff(sl), SLen(sl))
	var inArr, frArr *Term
	if n.isInt() && n.Int.Int64() <= 8 {
		inArr = oldArr
		frArr = v.fresh("arr", SArr(SInt, es))
		// fresh array: prefix copied (quantified), then the appended values
		k := int(n.Int.Int64())
		for i := 0; i < k; i++ {
			inArr = Store(inArr, Add(start, IntLit(int64(i))), srcAt(IntLit(int64(i))))
		}
		j := v.fresh("j", SInt)
		v.inQuant++
		app := srcAt(Sub(j, SLen(sl)))
		v.inQuant--
		body := Eq(Select(frArr, j), Ite(And(Le(IntLit(0), j), Lt(j, SLen(sl))), Select(oldArr, Add(SOff(sl), j)),
			Ite(And(Le(SLen(sl), j), Lt(j, newLen)), app, zeroOfSort(es))))
		s.assume(Forall([]*Term{j}, body, mk("select", es, frArr, j)))
	} else {
		inArr = v.fresh("arr", SArr(SInt, es))
		frArr = v.fresh("arr", SArr(SInt, es))
		j := v.fresh("j", SInt)
		v.inQuant++
		appIn := srcAt(Sub(j, start))
		appFr := srcAt(Sub(j, SLen(sl)))
		v.inQuant--
		bodyIn := Eq(Select(inArr, j), Ite(And(Le(start, j), Lt(j, Add(start, n))), appIn, Select(oldArr, j)))
		s.assume(Forall([]*Term{j}, bodyIn, mk("select", es, inArr, j)))
		bodyFr := Eq(Select(frArr, j), Ite(And(Le(IntLit(0), j), Lt(j, SLen(sl))), Select(oldArr, Add(SOff(sl), j)),
			Ite(And(Le(SLen(sl), j), Lt(j, newLen)), appFr, zeroOfSort(es))))
		s.assume(Forall([]*Term{j}, bodyFr, mk("select", es, frArr, j)))
	}
	nb := v.allocRef(s) // allocated in both branches (harmless over-approximation of alloc)
	newCap := v.fresh("cap", SInt)
	s.assume(And(Ge(newCap, newLen), Le(newCap, IntLitB(maxLen))))
	s.heaps[name] = Ite(fits, Store(h, SBase(sl), inArr), Store(h, nb, frArr))
	res := MkSlice(Ite(fits, SBase(sl), nb), Ite(fits, SOff(sl), IntLit(0)), newLen, Ite(fits, SCap(sl), newCap))
	// append(nil-or-empty, nothing) keeps the slice
	if !n.isInt() && !fits.isTrue() {
		res = Ite(Eq(n, IntLit(0)), sl, res)
		s.heaps[name] = Ite(Eq(n, IntLit(0)), h, s.heaps[name])
	}
	r := v.name(s, "appr", res)
	// the length of the result is len(s)+n on every branch: known as an equality so that
	// byte-string windows of the result are keyed by it (see State.normKey)
	if r != res && !r.IsLit && len(r.Args) == 0 {
		if s.eqs2 == nil {
			s.eqs2 = map[string]*Term{}
		}
		s.eqs2[SLen(r).String()] = newLen
		s.pc = append(s.pc, Eq(SLen(r), newLen))
	}
	return r
}

func zeroOfSort(es string) *Term {
	if w, ok := isBVSort(es); ok {
		return BVLit(0, w)
	}
	switch es {
	case SInt:
		return IntLit(0)
	case SBool:
		return TFalse
	case SSlice:
		return NilSlice
	case SIface:
		return NilIface
	}
	return Const("zero."+sortTag(es), es)
}

// ---------------- calls by contract ----------------

func (v *Verifier) applyContract(s *State, fc *FuncContract, fn *types.Func, recv *Term, recvT types.Type, args []*Term, pos token.Pos) []*Term {
	sig := fn.Type().(*types.Signature)
	if fc.Flags["trusted"] {
		v.trusted[fc.PkgPath+"."+fc.Key()] = true
	}
	if fc.Flags["assumed"] {
		v.assumed["assumed (unverified) contract on in-repo function "+fc.PkgPath+"."+fc.Key()] = true
	}
	cpkg := v.eng.typesPkg(fn)
	env := v.newEnv(cpkg)
	if fc.RecvName != "" && recv != nil {
		env.vars[fc.RecvName] = CVal{recv, sig.Recv().Type()}
	}
	for i, p := range fc.Params {
		if i < len(args) && i < sig.Params().Len() {
			env.vars[p.Name] = CVal{args[i], sig.Params().At(i).Type()}
		}
	}
	pre := s.clone()
	// preconditions are obligations of the caller
	for k, c := range fc.clauses("requires") {
		g := env.at(s, s).trBool(c.Expr)
		v.oblige(s, "pre", fmt.Sprintf("%s.%d", fc.Key(), k+1), g, pos, "precondition of "+fc.Key()+": "+c.Text)
		s.assume(g)
	}
	// havoc what the callee may assign
	v.havocAssigns(s, pre, fc, env)
	for _, c := range fc.clauses("ghost") {
		for _, a := range c.Args {
			if a.Kind == "ident" {
				v.ghostVal(pre, a.Name)
				v.ghostVal(s, a.Name)
				s.ghost[a.Name] = v.fresh("ghost."+a.Name, SInt)
			}
		}
	}
	// results
	var rs []*Term
	for i := 0; i < sig.Results().Len(); i++ {
		rt := sig.Results().At(i).Type()
		hint := fn.Name() + "_r"
		if i < len(fc.Results) {
			hint = fn.Name() + "_" + fc.Results[i].Name
		}
		r := v.symbolic(s, hint, rt)
		rs = append(rs, r)
		if i < len(fc.Results) {
			env.vars[fc.Results[i].Name] = CVal{r, rt}
		}
	}
	for _, c := range fc.clauses("ensures") {
		s.assume(v.trLenient(env.at(s, pre), c.Expr, fc))
	}
	for _, c := range fc.clauses("defines") {
		// definitional postcondition: gives a name to the function's result; not proved in the callee
		s.assume(env.at(s, pre).trBool(c.Expr))
		v.assumed["definitional postcondition of "+fc.PkgPath+"."+fc.Key()+" (names its result as a function of its arguments; not proved): "+c.Text] = true
	}
	for _, c := range fc.clauses("fresh") {
		for _, a := range c.Args {
			x := env.at(s, pre).tr(a)
			s.assume(v.freshFact(x, pre.alloc, s.alloc))
		}
	}
	// a slice result that provably is one of the slice arguments is replaced by it,
	// so that later heap reads see through the call
	for i, r := range rs {
		if r.Sort != SSlice {
			continue
		}
		for _, a := range args {
			if a.Sort == SSlice && !sameTerm(a, NilSlice) && v.entails(s, Eq(r, a)) {
				rs[i] = a
				break
			}
		}
	}
	return rs
}

func (v *Verifier) freshFact(x CVal, a0, a1 *Term) *Term {
	var b *Term
	switch x.T.Sort {
	case SSlice:
		b = SBase(x.T)
	case SInt:
		b = x.T
	case SIface:
		b = IVal(x.T)
	default:
		unsupported("fresh() of sort %s", x.T.Sort)
	}
	return Or(Eq(b, IntLit(0)), And(Le(a0, b), Lt(b, a1)))
}

// havocAssigns applies a callee's assigns clause to the caller state.
func (v *Verifier) havocAssigns(s *State, pre *State, fc *FuncContract, env *CEnv) {
	cls := fc.clauses("assigns")
	if fc.Flags["pure"] {
		return
	}
	if len(cls) == 0 {
		v.havocAll(s)
		return
	}
	allocated := false
	bump := func() {
		if !allocated {
			v.bumpAlloc(s)
			allocated = true
		}
	}
	bump()
	for _, c := range cls {
		for _, a := range c.Args {
			v.havocItemLenient(s, pre, env, a, fc)
		}
	}
}

// havocItemLenient: in a trusted contract, an item all(T.f) (or a clause) about a type of a
// package that is not loaded for this check is skipped: no object of that type can occur in
// the code being verified.
func (v *Verifier) havocItemLenient(s *State, pre *State, env *CEnv, a *CExpr, fc *FuncContract) {
	q0 := v.inQuant
	defer func() {
		if r := recover(); r != nil {
			v.inQuant = q0 // the aborted translation may have been inside a quantifier
			if se, ok := r.(subsetError); ok && fc.Flags["trusted"] && strings.Contains(se.msg, "unknown type") {
				return
			}
			panic(r)
		}
	}()
	v.havocItem(s, pre, env, a)
}

// trLenient translates a clause of a trusted contract; a clause about an unknown (not loaded) type is true.
func (v *Verifier) trLenient(env *CEnv, e *CExpr, fc *FuncContract) (t *Term) {
	q0 := v.inQuant
	defer func() {
		if r := recover(); r != nil {
			v.inQuant = q0
			if se, ok := r.(subsetError); ok && fc.Flags["trusted"] && strings.Contains(se.msg, "unknown type") {
				t = TTrue
				return
			}
			panic(r)
		}
	}()
	return env.trBool(e)
}

// havocItem: one element of an assigns list.
//
//	x            slice expression: elements x[0:len(x)]
//	*p / p       pointer: whole pointee
//	p.f          field f of object p
//	all(T.f)     field heap of struct T entirely;  all(H)  everything
//	global(name) package variable
func (v *Verifier) havocItem(s *State, pre *State, env *CEnv, a *CExpr) {
	e := env.at(pre, pre)
	e.sink = s
	mark := len(pre.pc)
	defer e.flush(pre, mark)
	switch {
	case a.Kind == "ident" && a.Name == "all":
		v.havocAll(s)
		return
	case a.Kind == "call" && a.X.Kind == "ident" && a.X.Name == "all":
		for _, arg := range a.Args {
			name := e.heapNameOf(arg)
			if cur, ok := s.heaps[name]; ok {
				s.heaps[name] = v.fresh(name, cur.Sort)
			} else if srt, ok := v.heapSorts[name]; ok {
				v.getHeap(s, name, srt)
				s.heaps[name] = v.fresh(name, srt)
			} else {
				v.pendingHavoc[name] = true
			}
		}
		return
	case a.Kind == "call" && a.X.Kind == "ident" && a.X.Name == "global":
		for name := range s.heaps {
			if strings.HasPrefix(name, "G_") && strings.HasSuffix(name, "_"+a.Args[0].String()) {
				s.heaps[name] = v.fresh(name, s.heaps[name].Sort)
			}
		}
		return
	case a.Kind == "call" && a.X.Kind == "ident" && v.eng.ghostFields[a.X.Name] != nil:
		gf := v.eng.ghostFields[a.X.Name]
		h, key := e.ghostFieldHeap(gf, a.Args[0])
		h = v.getHeap(s, "GF_"+gf.Name, h.Sort)
		_, vs, _ := arrSorts(h.Sort)
		nv := v.fresh("gf", vs)
		if env.resolveType(gf.Result) == bstrType {
			s.assume(env.at(s, pre).normFact(nv))
		}
		s.heaps["GF_"+gf.Name] = Store(h, key, nv)
		return
	case a.Kind == "un" && a.Op == "*":
		a = a.X
	}
	isContents := false
	if a.Kind == "call" && a.X.Kind == "ident" && a.X.Name == "contents" && len(a.Args) == 1 {
		a = a.Args[0]
		isContents = true
	}
	if a.Kind == "sel" && !isContents {
		// p.f
		base := e.tr(a.X)
		st, _ := derefType(base.Ty)
		stt, ok := st.Underlying().(*types.Struct)
		if !ok {
			unsupported("assigns %s: not a struct field", a)
		}
		for i := 0; i < stt.NumFields(); i++ {
			if stt.Field(i).Name() == a.Name {
				ft := stt.Field(i).Type()
				nv := v.fresh("fld", v.sortOf(ft))
				s.assume(v.typeFacts(s, nv, ft))
				v.storeField(s, base.T, st, i, nv)
				return
			}
		}
		unsupported("assigns %s: no such field", a)
	}
	x := e.tr(a)
	switch u := x.Ty.Underlying().(type) {
	case *types.Slice:
		name, h, es := v.sliceHeap(s, u.Elem())
		old := v.hsel(s, h, SBase(x.T))
		na := v.fresh("arr", SArr(SInt, es))
		j := v.fresh("j", SInt)
		in := And(Le(SOff(x.T), j), Lt(j, Add(SOff(x.T), SLen(x.T))))
		s.assume(Forall([]*Term{j}, Implies(Not(in), Eq(Select(na, j), Select(old, j))), mk("select", es, na, j)))
		s.heaps[name] = Store(h, SBase(x.T), na)
	case *types.Pointer:
		switch pu := u.Elem().Underlying().(type) {
		case *types.Array:
			name, h, es := v.sliceHeap(s, pu.Elem())
			s.heaps[name] = Store(h, x.T, v.fresh("arr", SArr(SInt, es)))
		case *types.Struct:
			for i := 0; i < pu.NumFields(); i++ {
				ft := pu.Field(i).Type()
				nv := v.fresh("fld", v.sortOf(ft))
				if _, isArr := ft.Underlying().(*types.Array); !isArr {
					s.assume(v.typeFacts(s, nv, ft))
				}
				v.storeField(s, x.T, u.Elem(), i, nv)
			}
		default:
			name, h := v.cellHeap(s, u.Elem())
			nv := v.fresh("cell", v.sortOf(u.Elem()))
			s.assume(v.typeFacts(s, nv, u.Elem()))
			s.heaps[name] = Store(h, x.T, nv)
		}
	case *types.Map:
		hn, vn, hh, hv := v.mapHeaps(s, u)
		ks, vs := v.sortOf(u.Key()), v.sortOf(u.Elem())
		s.heaps[hn] = Store(hh, x.T, v.fresh("mh", SArr(ks, SBool)))
		s.heaps[vn] = Store(hv, x.T, v.fresh("mv", SArr(ks, vs)))
	default:
		unsupported("assigns item %s of type %s", a, x.Ty)
	}
}

// devirtualize looks for a concrete method contract whose receiver type implements the
// interface and is provably the dynamic type of recv.
func (v *Verifier) devirtualize(s *State, it *types.Interface, fn *types.Func, recv *Term) (*FuncContract, *types.Func, types.Type) {
	for _, key := range sortedKeys(v.eng.contracts) {
		fc := v.eng.contracts[key]
		if fc.Name != fn.Name() || fc.RecvType == "" || fc.Flags["trusted"] {
			continue
		}
		p := v.eng.pkgs[fc.PkgPath]
		if p == nil || p.Types == nil {
			continue
		}
		obj, _ := p.Types.Scope().Lookup(fc.RecvType).(*types.TypeName)
		if obj == nil {
			continue
		}
		var ct types.Type = obj.Type()
		if fc.RecvPtr {
			ct = types.NewPointer(ct)
		}
		if _, isI := obj.Type().Underlying().(*types.Interface); isI {
			continue
		}
		if !types.Implements(ct, it) {
			continue
		}
		id, known := v.d.typeIDs[types.TypeString(ct, nil)]
		if !known {
			continue
		}
		if !v.entails(s, Eq(IType(recv), IntLit(int64(id)))) {
			continue
		}
		mobj, _, _ := types.LookupFieldOrMethod(ct, true, p.Types, fn.Name())
		cfn, _ := mobj.(*types.Func)
		if cfn == nil {
			continue
		}
		return fc, cfn, ct
	}
	return nil, nil, nil
}
