package main

// Engine: package loading, contract registry.

import (
	"fmt"
	"go/ast"
	"go/token"
	"go/types"
	"math/big"
	"os"
	"path/filepath"
	"sort"
	"strings"

	"golang.org/x/tools/go/packages"
)

const repoRoot = "/repo"
const repoModule = "github.com/tink-crypto/tink-go/v2"

type Engine struct {
	fset        *token.FileSet
	pkgs        map[string]*packages.Package
	contracts   map[string]*FuncContract // pkgpath#Key
	cfiles      []*ContractFile
	specs       map[string]*SpecFunc
	specConsts  map[string]*big.Int
	lemmas      map[string]*Lemma
	lemmaList   []*Lemma
	axioms      []*Axiom
	decls       map[*types.Func]*ast.FuncDecl
	declPkg     map[*types.Func]*packages.Package
	globInits   map[*types.Var]ast.Expr
	globPkg     map[*types.Var]*packages.Package
	autoInl     map[*types.Func]bool
	verifRoot   string
	overlay     map[string][]byte
	ghostVars   map[string]bool
	ghostFields map[string]*SpecFunc
	fileCache   map[string][]byte
	aliases     map[string]map[string]string // package path -> import alias/name -> import path
}

func (sf *SpecFunc) String() string { return sf.Name }

// discoverContractDirs finds all package directories of /repo with a contracts file.
func discoverContractFiles() []string {
	var out []string
	filepath.WalkDir(repoRoot, func(p string, d os.DirEntry, err error) error {
		if err != nil {
			return nil
		}
		if d.IsDir() && (d.Name() == ".git" || d.Name() == "testdata") {
			return filepath.SkipDir
		}
		if !d.IsDir() && isContractFile(d.Name()) {
			out = append(out, p)
		}
		return nil
	})
	sort.Strings(out)
	return out
}

func newEngine(verifRoot string) *Engine {
	return &Engine{
		pkgs: map[string]*packages.Package{}, contracts: map[string]*FuncContract{}, specs: map[string]*SpecFunc{},
		specConsts: map[string]*big.Int{}, lemmas: map[string]*Lemma{}, decls: map[*types.Func]*ast.FuncDecl{},
		declPkg: map[*types.Func]*packages.Package{}, globInits: map[*types.Var]ast.Expr{}, globPkg: map[*types.Var]*packages.Package{},
		verifRoot: verifRoot,
	}
}

// loadSpecs reads /verif/specs/*.gvc.
func (e *Engine) loadSpecs() error {
	files, _ := filepath.Glob(filepath.Join(e.verifRoot, "specs", "*.gvc"))
	sort.Strings(files)
	for _, f := range files {
		cf, err := loadContractFile(f, "")
		if err != nil {
			return err
		}
		e.addContractFile(cf, "")
	}
	return nil
}

func (e *Engine) addContractFile(cf *ContractFile, pkgPath string) {
	e.cfiles = append(e.cfiles, cf)
	for _, fc := range cf.Funcs {
		if fc.PkgPath == "" {
			fc.PkgPath = pkgPath
		}
		e.contracts[fc.PkgPath+"#"+fc.Key()] = fc
	}
	for _, sf := range cf.Specs {
		sf.PkgPath = pkgPath
		key := sf.Name
		if pkgPath != "" {
			key = pkgPath + "#" + sf.Name
		}
		e.specs[key] = sf
	}
	for _, lm := range cf.Lemmas {
		lm.PkgPath = pkgPath
		e.lemmas[lm.Name] = lm
		e.lemmaList = append(e.lemmaList, lm)
	}
	e.axioms = append(e.axioms, cf.Axioms...)
	if e.ghostVars == nil {
		e.ghostVars = map[string]bool{}
	}
	for _, g := range cf.GhostVars {
		e.ghostVars[g] = true
	}
	if e.ghostFields == nil {
		e.ghostFields = map[string]*SpecFunc{}
	}
	for _, g := range cf.GhostFields {
		e.ghostFields[g.Name] = g
	}
}

func (e *Engine) lookupSpec(name string, pkg *types.Package) *SpecFunc {
	if pkg != nil {
		if sf, ok := e.specs[pkg.Path()+"#"+name]; ok {
			if sf.Pkg == nil {
				sf.Pkg = pkg
			}
			return sf
		}
	}
	if sf, ok := e.specs[name]; ok {
		return sf
	}
	// qualified: pkgname.f
	if i := strings.Index(name, "."); i > 0 {
		pn, fn := name[:i], name[i+1:]
		if ip := e.importedPkg(pkg, pn); ip != nil {
			if sf, ok := e.specs[ip.Path()+"#"+fn]; ok {
				if sf.Pkg == nil {
					sf.Pkg = ip
				}
				return sf
			}
		}
		for key, sf := range e.specs {
			j := strings.Index(key, "#")
			if j < 0 || key[j+1:] != fn {
				continue
			}
			pp := key[:j]
			if pp == pn || strings.HasSuffix(pp, "/"+pn) {
				if sf.Pkg == nil {
					if p := e.pkgs[pp]; p != nil {
						sf.Pkg = p.Types
					}
				}
				return sf
			}
		}
	}
	return nil
}

// load loads the given package patterns (relative to /repo) with the verif tag.
func (e *Engine) load(patterns []string) error {
	cfg := &packages.Config{
		Mode: packages.NeedName | packages.NeedFiles | packages.NeedSyntax | packages.NeedTypes | packages.NeedTypesInfo | packages.NeedImports | packages.NeedDeps | packages.NeedModule,
		Dir:  repoRoot, BuildFlags: []string{"-tags=verif"},
		Overlay: e.overlay,
	}
	pkgs, err := packages.Load(cfg, patterns...)
	if err != nil {
		return err
	}
	e.fset = cfg.Fset
	if len(pkgs) > 0 {
		e.fset = pkgs[0].Fset
	}
	var errs []string
	packages.Visit(pkgs, nil, func(p *packages.Package) {
		e.pkgs[p.PkgPath] = p
		if strings.HasPrefix(p.PkgPath, repoModule) {
			for _, er := range p.Errors {
				errs = append(errs, er.Error())
			}
		}
	})
	if len(errs) > 0 {
		return fmt.Errorf("package errors: %s", strings.Join(errs, "; "))
	}
	if e.aliases == nil {
		e.aliases = map[string]map[string]string{}
	}
	for _, p := range e.pkgs {
		if p.TypesInfo == nil {
			continue
		}
		am := map[string]string{}
		for _, f := range p.Syntax {
			for _, im := range f.Imports {
				path := strings.Trim(im.Path.Value, "\"")
				name := ""
				if im.Name != nil {
					name = im.Name.Name
				} else if ip := p.Imports[path]; ip != nil {
					name = ip.Name
				}
				if name != "" && name != "_" && name != "." {
					am[name] = path
				}
			}
		}
		e.aliases[p.PkgPath] = am
		for _, f := range p.Syntax {
			for _, d := range f.Decls {
				switch x := d.(type) {
				case *ast.FuncDecl:
					if fn, ok := p.TypesInfo.Defs[x.Name].(*types.Func); ok {
						e.decls[fn] = x
						e.declPkg[fn] = p
					}
				case *ast.GenDecl:
					if x.Tok == token.VAR {
						for _, sp := range x.Specs {
							vs := sp.(*ast.ValueSpec)
							if len(vs.Values) == len(vs.Names) {
								for i, n := range vs.Names {
									if o, ok := p.TypesInfo.Defs[n].(*types.Var); ok {
										e.globInits[o] = vs.Values[i]
										e.globPkg[o] = p
									}
								}
							}
						}
					}
				}
			}
		}
	}
	// contract files of loaded /repo packages
	for _, p := range e.pkgs {
		if !strings.HasPrefix(p.PkgPath, repoModule) {
			continue
		}
		for _, f := range p.GoFiles {
			if isContractFile(filepath.Base(f)) {
				var cf *ContractFile
				var err error
				if ov, ok := e.overlay[f]; ok {
					cf, err = parseContractText(f, string(ov), "//@")
				} else {
					cf, err = loadContractFile(f, "//@")
				}
				if err != nil {
					return err
				}
				e.addContractFile(cf, p.PkgPath)
			}
		}
	}
	return nil
}

func (e *Engine) declOf(fn *types.Func) (*ast.FuncDecl, *packages.Package) {
	fn = fn.Origin()
	return e.decls[fn], e.declPkg[fn]
}

func (e *Engine) typesPkg(fn *types.Func) *types.Package {
	return fn.Pkg()
}

func (e *Engine) globalInit(o *types.Var) ast.Expr { return e.globInits[o] }

// findFunc locates the declaration for a contract in a package.
func (e *Engine) findFunc(p *packages.Package, fc *FuncContract) (*ast.FuncDecl, *types.Func) {
	for fn, d := range e.decls {
		if e.declPkg[fn] != p {
			continue
		}
		_, key := funcKey(fn)
		base := fc.Name
		if fc.RecvType != "" {
			base = fc.RecvType + "." + fc.Name
		}
		if key == base {
			return d, fn
		}
	}
	return nil, nil
}

func pkgDirOf(path string) string {
	rel := strings.TrimPrefix(path, repoModule)
	return "." + rel
}

func (e *Engine) fileBytes(name string) []byte {
	if b, ok := e.overlay[name]; ok {
		return b
	}
	if e.fileCache == nil {
		e.fileCache = map[string][]byte{}
	}
	if b, ok := e.fileCache[name]; ok {
		return b
	}
	b, err := os.ReadFile(name)
	if err != nil {
		return nil
	}
	e.fileCache[name] = b
	return b
}

// importedPkg resolves a package qualifier used inside package `from` (import
// alias or package name) to the loaded package.
func (e *Engine) importedPkg(from *types.Package, qual string) *types.Package {
	if from != nil {
		if am := e.aliases[from.Path()]; am != nil {
			if path, ok := am[qual]; ok {
				if p := e.pkgs[path]; p != nil && p.Types != nil {
					return p.Types
				}
			}
		}
		for _, imp := range from.Imports() {
			if imp.Name() == qual {
				return imp
			}
		}
	}
	// deterministic fallback: the shortest non-internal path with that package name
	var best *types.Package
	for _, p := range e.pkgs {
		if p.Types != nil && p.Types.Name() == qual {
			if best == nil || betterPkgPath(p.Types.Path(), best.Path()) {
				best = p.Types
			}
		}
	}
	return best
}

func betterPkgPath(a, b string) bool {
	ai, bi := strings.Contains(a, "internal/"), strings.Contains(b, "internal/")
	if ai != bi {
		return !ai
	}
	if len(a) != len(b) {
		return len(a) < len(b)
	}
	return a < b
}

// isContractFile: zz_verif_contracts.go and generated companions zz_verif_*_contracts.go.
func isContractFile(name string) bool {
	return strings.HasPrefix(name, "zz_verif_") && strings.HasSuffix(name, "contracts.go")
}
