#!/usr/bin/env python3
"""Print, from the evidence files of the last runs, the functions under contract per
property (grouped by contract file) with obligation counts: the table of DESIGN.md 10.3."""
import json, glob, os, collections
rows = []
for f in sorted(glob.glob('/verif/evidence/C*.json')):
    d = json.load(open(f))
    c = d['coverage']
    by = collections.OrderedDict()
    for fn in c.get('functions_under_contract', []):
        cf = os.path.dirname(fn['contract_file'])
        by.setdefault(cf, []).append(fn['function'].split('.', 1)[1] if '.' in fn['function'] else fn['function'])
    parts = []
    for cf, fns in by.items():
        parts.append('`%s`: %s' % (cf, ', '.join(sorted(set(fns)))))
    rows.append((d['property_id'], len(c.get('functions_under_contract', [])), c['obligations'], c['discharged'], int(d['wall_s']), '; '.join(parts)))
print('| property | functions | obligations (all discharged) | wall s | functions under contract, by package |')
print('|---|---|---|---|---|')
for r in rows:
    assert r[2] == r[3], r[0]
    print('| %s | %d | %d | %d | %s |' % (r[0], r[1], r[2], r[4], r[5]))
