#!/bin/bash
# usage: tools/ingest_seed2.sh <Cnn> <demo-pkg-dir> <run-regex> <existing-test-pkgs...>
# Copies /tmp/seed3_<Cnn> to /verif/seeded/<Cnn>-2 and confirms it in a scratch worktree of /repo's HEAD:
# demo passes without the patch, fails with it; builds; the listed existing test packages pass with it.
. /verif/env.sh
id=$1; dir=$2; rx=$3; shift 3
name=$id-3
mkdir -p /verif/seeded/$name
cp /tmp/seed3_$id/patch.diff /tmp/seed3_$id/demo_test.go /tmp/seed3_$id/notes.md /verif/seeded/$name/ 2>/dev/null
wt=/tmp/vs_$name
git -C /repo worktree remove --force $wt 2>/dev/null
git -C /repo worktree add -q --detach $wt HEAD || exit 2
trap "git -C /repo worktree remove --force $wt" EXIT
cd $wt
cp /verif/seeded/$name/demo_test.go $dir/zz_demo_test.go
echo "--- demo WITHOUT patch (must pass)"
go test -vet=off -count=1 -run "$rx" ./$dir/ 2>&1 | tail -2
git apply /verif/seeded/$name/patch.diff || { echo "APPLY FAILED"; exit 2; }
echo "--- build WITH patch"; go build ./... 2>&1 | tail -3
echo "--- demo WITH patch (must fail)"
go test -vet=off -count=1 -run "$rx" ./$dir/ 2>&1 | tail -3
rm $dir/zz_demo_test.go
echo "--- existing tests WITH patch"
go test -vet=off -count=1 "$@" 2>&1 | grep -v "^ok\|no test files" | grep -v "BoringSSLVectors\|_kem_test.go\|hybrid/internal/hpke\|^FAIL$" | tail -8
echo "--- done"
