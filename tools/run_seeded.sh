#!/bin/bash
# usage: tools/run_seeded.sh <seed-dir-name> [property ...]   applies the seeded change to /repo, runs the checks, reverts it.
cd "$(dirname "$0")/.."
d=seeded/$1; shift
[ -f "$d/patch.diff" ] || { echo "no patch in $d"; exit 2; }
git -C /repo apply "$PWD/$d/patch.diff" || { echo "patch does not apply"; exit 2; }
trap 'git -C /repo apply -R "'"$PWD/$d/patch.diff"'" || echo "WARNING: could not revert patch"' EXIT
props="$@"
[ -z "$props" ] && props=$(python3 -c "import json;print(json.load(open('$d/meta.json'))['property'])" 2>/dev/null)
for p in $props; do
  GVC_NO_EVIDENCE=1 ./check prove $p --tier quick | grep -E "VIOLATION|KNOWN|^gvc|ERROR" | cut -c1-260
done
