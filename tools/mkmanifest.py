#!/usr/bin/env python3
"""Regenerates /verif/MANIFEST.json from the table below (claimed properties and notes)."""
import json, os, subprocess
ROOT = os.path.dirname(os.path.dirname(os.path.abspath(__file__)))

TECH = "contract-based deductive verification: //@ contracts on the real functions, self-built VC generator (gvc: go/packages + go/ast + go/types symbolic execution, callees by contract, loop invariants), obligations discharged by z3 5.1.0 / z3 4.8.12 / cvc5 1.0.3"

CLAIMED = {
 "C01": dict(
   text="Proof, for all plaintexts/associated data/lengths, of byte-exact wire-format postconditions (prefix || IV || standard ciphertext || tag) on the in-tree AEAD code under contract, of Decrypt's dual postcondition, and of the round trip Decrypt(Encrypt(p,ad),ad)==p as a two-call lemma over those contracts. The functions under contract are listed in the evidence file (functions_under_contract).",
   note="Relative to trusted contracts of crypto/cipher (AEAD.Seal/Open, Block, Stream/CTR), crypto/hmac, hash.Hash, crypto/rand, encoding/binary, bytes in specs/stdlib.gvc: the Go implementations of AES-GCM, AES, CTR, HMAC are assumed to be the standard algorithms and Open(Seal(n,p,a),n,a)==p. AEAD key types without contracts in this snapshot are listed in DESIGN.md section 10 (coverage table) and are NOT covered.",
   ref="DESIGN.md section 5 C01"),
 "C02": dict(
   text="Proof that Decrypt of every AEAD under contract returns nil error iff (length check, prefix equality, full-tag authentication predicate) and returns no plaintext otherwise, and that no index, slice, make, nil-dereference or type-assertion in Encrypt/Decrypt can panic for any input (nopanic obligations with no precondition on the input bytes).",
   note="Unforgeability itself is a cryptographic assumption; 'did not produce' is reduced to 'authentication predicate of the trusted library / full-tag comparison is false'. Panics inside library callees are outside. Coverage limited to the functions listed in the evidence.",
   ref="DESIGN.md section 5 C02"),
 "C04": dict(
   text="Proof that the in-tree HMAC wrapper computes HMAC(key, concatenation of the inputs) truncated to the leading tagSize bytes and verifies exactly by full equality, and that parameter validation accepts exactly the documented sizes; digest-size and hash-function tables match the documented values.",
   note="crypto/hmac and hash.Hash are trusted (ghost-state contracts in specs/stdlib.gvc); ComputeMAC/VerifyMAC are proved for the argument counts used in the tree (1 and 3 parts), which is a call-site obligation for every caller. AES-CMAC and the MAC factories: see evidence for what is covered in this snapshot.",
   ref="DESIGN.md section 5 C04"),
 "C08": dict(
   text="Proof that the AES-SIV code equals RFC 5297 for every plaintext/associated-data length: multiplyByX is doubling in GF(2^128) (bit-vector proof), S2V (both the xorend branch and the dbl/pad branch, incl. the pad byte position), the CTR IV with bits 63 and 31 cleared, Encrypt = S2V || CTR and Decrypt accepts iff all 16 SIV bytes match and returns no plaintext otherwise; AES-CMAC against an RFC 4493 transcription (recursive CBC-MAC spec, loop invariant). AES-KWP: wrappingSize, accepted size range of Wrap/Unwrap, AIV prefix, encoded length and zero-padding checks of Unwrap are an if-and-only-if over the output of the inverse permutation; no panic for any input.",
   note="AES, CTR mode and the AES block permutation are trusted library contracts. CMAC.XOREndAndCompute is an assumed (unverified) contract; the KWP permutation W / invertW is named by a definitional postcondition, its step-by-step conformance to RFC 5649 is not proved (listed in the evidence). Unforgeability is a cryptographic assumption.",
   ref="DESIGN.md section 5 C08"),
 "C09": dict(
   text="Proof that the validator decision functions are equivalences with reference predicates taken from the property statement: validateFieldPresence (all 8 rows), validateTimestamps (exp/nbf/iat against now +- skew with exact boundaries, AllowMissingExpiration, ExpectIssuedInThePast, FixedNow), validateTypeHeader, validateIssuer.",
   note="time.Time arithmetic and the RawJWT accessors (HasExpiration/ExpiresAt/...) are assumed contracts (abstract view of the token); JSON/base64/structpb, header validation, signature-before-parse order and the JWK converter are not covered in this snapshot (see evidence and DESIGN.md section 10).",
   ref="DESIGN.md section 5 C09"),
 "C13": dict(
   text="Proof that hasSecrets(ks) is true iff some key of the keyset (at any position) has UNKNOWN, SYMMETRIC or ASYMMETRIC_PRIVATE material (or a nil key / key data), for every keyset.",
   note="Covers the decision function only; the dominance of the guard in NewHandleWithNoSecrets/WriteWithNoSecrets, the footprints of KeysetInfo/String and the encrypted writers are not under contract in this snapshot.",
   ref="DESIGN.md section 5 C13"),
 "C14": dict(
   text="Proof that keyset.Validate returns nil iff the keyset is non-nil, non-empty, every key is valid (non-nil, has key data, known prefix type and status), key IDs are pairwise distinct, and the primary ID names an ENABLED key (loop invariant over the processed prefix with the seen-ID set, both directions); validateKey iff; minimum-strength validators (HMAC, AES key size, CMAC, HKDF-PRF, HMAC-PRF parameters) as equivalences.",
   note="Key parsers (ParseKey of each key type) and primitive constructors are not swept for panics in this snapshot; protobuf and JSON parsing are outside.",
   ref="DESIGN.md section 5 C14"),
 "C15": dict(
   text="Proof that HMAC-PRF, AES-CMAC-PRF and HKDF-PRF return exactly the leading n bytes of HMAC(key,x) / CMAC(key,x) / the RFC 5869 stream for (key, salt, info=x), fail iff n exceeds the algorithm maximum, do not modify any pre-existing memory (hence are deterministic functions of key and input: prefix consistency follows because the postcondition is a prefix of one fixed string), and that subtle.ComputeHKDF returns RFC 5869 output (empty salt = HashLen zeros) iff its parameters are valid.",
   note="crypto/hmac, hash.Hash, x/crypto/hkdf and io.ReadFull/ReadAtLeast are trusted ghost-state contracts; the PRF-set factory (IDs mirror enabled keys) is not under contract in this snapshot.",
   ref="DESIGN.md section 5 C15"),
 "C18": dict(
   text="Sufficient discipline for schedule-independence, proved per function: every primitive method under contract has `assigns nothing`, and its frame obligations prove that no execution writes any memory that existed before the call - in particular no field, array or buffer reachable from the shared receiver; all per-call state is freshly allocated. Calls that write nothing shared cannot race or observe each other.",
   note="The step from 'no call writes shared memory' to 'every interleaving returns what the call returns alone' is a standard non-interference argument that is NOT machine-checked; no schedule is explored and this is not race detection. Registries (sync.Map / mutex-guarded maps) and factories are not covered. Library objects (cipher.Block, cipher.AEAD) are trusted to be safe for concurrent use.",
   ref="DESIGN.md section 5 C18"),
 "C03": dict(
   text="ECDSA, Ed25519, RSA-SSA-PKCS1, RSA-SSA-PSS. ECDSA: proof that verifier.Verify returns nil iff the signature starts with the key's output prefix and the rest is accepted by the standard strict verifier (crypto/ecdsa.VerifyASN1 as an uninterpreted predicate) for the digest of the message (message||0x00 for LEGACY) - for DER directly, for IEEE-P1363 only if the length is exactly the curve's fixed size (64/96/132) with r,s the big-endian halves; that signer.Sign's output is prefix || a signature the same reference predicate accepts; IEEE-P1363 encode/decode sizes and halves; curve/hash enum tables; NewVerifier builds the verifier from the key's parameters and point. Ed25519: Verify accepts exactly prefix || a 64-byte signature the standard verifier accepts for the (LEGACY: 0x00-suffixed) message, Sign returns prefix || the standard signature, which verifies under the matching public key. RSA: modulus >= 2048 and e = 65537 and SHA-256/384/512 are enforced by the constructors as equivalences; the internal verifiers run the standard PKCS1v15 / PSS verifier on the digest with the constructor's hash id and salt length; the key-level wrappers check the prefix and suffix 0x00 for LEGACY; Sign outputs prefix || a signature the standard verifier accepts.",
   note="crypto/ecdsa (Sign, SignASN1, VerifyASN1), math/big, crypto/elliptic and hash functions are trusted contracts over uninterpreted predicates (ecdsaVerifies, derSig, beNat, ...): 'an independent strict verifier accepts' is reduced to that predicate. crypto/ed25519 and crypto/rsa likewise (ed25519Verifies, rsaPKCS1Verifies, rsaPSSVerifies). ASN1Encode is an assumed contract. The signature factories, key constructors (NewSigner/NewVerifier of Ed25519/RSA) and ASN.1 strictness are NOT covered in this snapshot.",
   ref="DESIGN.md section 5 C03"),
 "C05": dict(
   text="Keyset wrappers of AEAD, deterministic AEAD, MAC and signatures, the prefix map behind them, and streaming AEAD key matching. Prefix map: the candidates for an input are exactly the entries stored under the input's first five bytes (if it has that many), in insertion order, followed by the entries stored under the empty prefix; Insert appends to the list of its prefix and touches no other list; Next yields each candidate once in that order. Wrappers: Encrypt / EncryptDeterministically / ComputeMAC / Sign use the primary entry only and log its key id (a failure is logged as a failure); Decrypt / DecryptDeterministically / VerifyMAC / Verify succeed iff some candidate of the input's prefix (or a RAW candidate) accepts, return that candidate's result, log that candidate's key id, and fail (logging a failure) only if no candidate accepts; MACs of five bytes or fewer are rejected. Legacy adapters put the key's output prefix in front of the raw output and suffix 0x00 to the message for LEGACY keys. Streaming: decryptReader.Read starts every candidate key's reader on the rewound ciphertext, keeps the first whose first Read succeeds, reports errKeyNotFound otherwise and on every later call.",
   note="tink.AEAD / DeterministicAEAD / MAC / Signer / Verifier / StreamingAEAD, monitoring.Logger and io.Reader are trusted interface contracts (deterministic functions of object and input with ghost logs). NOT covered: construction of the wrappers from a handle (which entries are inserted: only ENABLED keys, their prefixes, the primary), hybrid and JWT and PRF-set wrappers, the registry dispatch.",
   ref="DESIGN.md section 5 C05 and section 10.3"),
 "C06": dict(
   text="ECIES-AEAD-HKDF (hybrid/subtle): proof that PointEncode produces the SEC 1 fixed-width encodings (uncompressed, legacy uncompressed without the 0x04 byte, compressed with the parity byte) exactly for on-curve points and PointDecode accepts exactly the byte strings of the right length/tag that decode to an on-curve point; ComputeSharedSecret = fixed-width x coordinate of D*P iff the peer point is on the curve; decapsulate/encapsulate derive HKDF(kem || shared secret, salt, info); Decrypt succeeds iff header, KEM, DEM key and DEM decryption all succeed and returns the DEM plaintext; Encrypt outputs kem || DEM ciphertext for a fresh ephemeral key whose DEM ciphertext decrypts to the plaintext under the key the recipient derives (Diffie-Hellman commutativity as an axiom).",
   note="crypto/elliptic, math/big, crypto/ecdh arithmetic (ecdhX, onCurve, pubX...), HKDF, the DEM helper and the tink.AEAD/DeterministicAEAD interfaces are trusted contracts over uninterpreted functions; getY (point decompression) is an assumed contract. HPKE: only the AES-GCM AEAD seal/open (standard AES-GCM under (key, nonce, aad); the caller's ciphertext is not written) is under contract. The end-to-end ECIES round trip as one lemma, the HPKE key schedule (RFC 9180 labels, suite ids, KEMs X25519/ML-KEM/X-Wing), ChaCha20-Poly1305 and the hybrid factories are NOT covered in this snapshot.",
   ref="DESIGN.md section 5 C06"),
 "C07": dict(
   text="Nonce-based segment layer (streamingaead/subtle/noncebased): proof of the segment nonce format (prefix || 4-byte big-endian counter || last flag, zero padded; failure iff counter >= 2^32-1); representation invariant of Writer (pending bytes never exceed the current segment's limit, first segment shortened by the offset) preserved by every Write for every chunking; Close emits exactly the pending bytes as the last segment under the last-segment nonce and an I/O error of the underlying writer always surfaces from Write/Close; Reader.Read returns bytes only from a successfully decrypted segment, no bytes with any error, and io.EOF after the last segment is consumed; invariant of Reader preserved for every Read size and every short-read behaviour of the source; AES-GCM-HKDF NewDecryptingReader consumes exactly the 1+keysize+7 header bytes from any source (whatever its read sizes), checks the length byte, derives the segment key by HKDF from the header's salt and the associated data and passes the header's nonce prefix on.",
   note="Segment encrypters/decrypters, io.Writer and io.ReadFull are trusted interface contracts (deterministic functions with ghost logs). The equality of the whole written stream with header||segments of the whole plaintext (an induction over the history of Write calls), the AES-GCM-HKDF encrypting side and segment ciphers, and all of AES-CTR-HMAC streaming, are NOT covered in this snapshot.",
   ref="DESIGN.md section 5 C07"),
 "C17": dict(
   text="Proof that the PRF-based key deriver's building blocks are the documented functions: the streaming PRF reader yields the RFC 5869 HKDF stream for (hash, key, salt, info=input salt), hash-type names map to the right hash functions, secretdata.Bytes construction copies (no sharing with caller buffers) and NewBytesFromRand draws exactly n fresh random bytes, and NewKeyDeriver accepts exactly the supported parameter combinations.",
   note="x/crypto/hkdf and io.Reader are trusted ghost-state contracts. The per-key-type derivers (which bytes of the stream become which key field, ID requirements) and the keyset-level deriver are NOT covered in this snapshot.",
   ref="DESIGN.md section 5 C17"),
 "C12": dict(
   text="Field-mapping layer of the proto serialization: (1) for every key type, generated lemmas prove that each enum / prefix table used when serializing (variant -> OutputPrefixType, hash, curve, point format, signature encoding, KEM/KDF/AEAD ids, ML-DSA / SLH-DSA instance types, JWT algorithms) is inverted by the table used when parsing: from(to(a)) == a whenever to(a) succeeds (43 lemmas, obligations over the inlined real function bodies); (2) for JWT-HMAC keys, SerializeKey and ParseKey are under contract with intermediate assertions that every key field goes to / comes from the proto field it belongs to (version, algorithm, key bytes, custom kid present iff the CustomKID strategy - an empty custom kid is a custom kid - and carried unchanged, prefix type and ID requirement), plus KID-strategy / prefix-type tables as a lemma; NewKeySerialization and its accessors.",
   note="protobuf Marshal/Unmarshal are trusted to fill/read exactly the message's fields (nothing is assumed about bytes); NewKey/NewParameters of jwthmac are assumed contracts. One table pair is deliberately not inverse (ECIES UnspecifiedPointFormat for X25519) and is excluded with the reason in tools/gen_enum_lemmas.py. NOT covered: the key-level round trip Equal(Parse(Serialize(k)), k) as one theorem for any key type, big-integer leading-zero handling, byte-identical re-serialization, keyset handle readers/writers (binary, JSON, encrypted), Public().",
   ref="DESIGN.md section 5 C12 and section 10.3"),
 "C16": dict(
   text="SLH-DSA verification path (internal/signature/slhdsa), for all twelve parameter sets as a case split over Table 2: proof that Verify/verifyInternal reject every signature whose length is not (1 + k(1+a) + h + d*len)*n bytes and that NO byte string as signature, message or context makes the verification path panic (every slice/index in verifyInternal, forsPkFromSig, htVerify, xmssPkFromSig, wotsPkFromSig, chain, wotsChecksum, base_2^b, toInt, toByte is in range, the `unreachable` panics are unreachable, the digest split md / tree index / leaf index fits the m-byte digest); toInt / toByte are big-endian conversions (Algorithms 2-3), base_2^b yields outLen digits below 2^b reading only ceil(outLen*b/8) bytes, the checksum digits are below w; the ADRS setters write exactly the Table 1 field at the right offset and nothing else, compress() is the Table 3 layout; verification writes no memory visible to the caller; DecodePublicKey accepts exactly 2n bytes; the sixteen tweakable hash instantiations of hash.go (SHAKE: H_msg, PRF, PRF_msg, F, H, T_l; SHA-2 categories 1 and 3/5: PRF, F, H, T_l) equal the FIPS 205 section 11 definitions (Trunc_n(SHA-256/512(PK.seed || zero padding to the block size || compressed ADRS || M)), SHAKE256 of the concatenation) and write nothing of the caller's.",
   note="Calls through the function-typed hash fields use trusted function-type contracts (fresh output of the requested length, no writes) that the verified instantiations satisfy; the SHA-2 H_msg (MGF1) and PRF_msg (HMAC) instantiations are not under contract. Byte-identical conformance of keys and signatures with FIPS 205 (the values of the hashes, the tree computations, the digit values of base_2^b) is NOT proved, nor is the signing path (recursive xmssNode/forsNode, forsSign, htSign) or key generation.",
   ref="DESIGN.md section 5 C16 and section 10.3"),
 "C10": dict(
   text="Proof (for all inputs, no bound) that every scalar routine of internal/signature/mldsa/algebra.go equals the FIPS 204 algorithm transcribed in specs/fips204.gvc on all of Z_q: reduceOnce, add, sub, neg, mul (Barrett), power2Round, scalePower2, divBy2Gamma2, decompose, highBits, lowBits, makeHint, useHint, centeredAbs, centeredMax. Obligations are generated from the current source on every run.",
   note="Trusted: crypto/subtle.ConstantTime{Select,LessOrEq,Eq} contracts (specs/stdlib.gvc, incl. their documented operand ranges as call-site obligations); the transcription of FIPS 204 Alg. 35-40 in specs/fips204.gvc; gvc and the solvers. Not covered: SHAKE, sampling, NTT as polynomial evaluation, signing/verification control flow (see DESIGN.md section 5-C10 and the evidence file).",
   ref="DESIGN.md section 5 C10"),
 "C11": dict(
   text="Representation invariant (non-nil entries, pairwise distinct IDs all recorded as unavailable, no Unknown status, at most one primary which is Enabled) proved preserved by SetPrimary, Enable, Disable, Delete and newRandomKeyID with whole-view postconditions (every entry pointer, and the changed field of every entry, is specified), error <=> the documented condition, and error ==> unchanged; hence the invariant holds after any history of these operations by induction.",
   note="Add/AddKey/AddNewKeyFromParameters and Handle()/NewManagerFromHandle depend on registry/key-generation callees; see the evidence for which of them are under contract in this snapshot. slices.IndexFunc / slices.Delete are modelled with their documented semantics inside gvc (trusted). Termination of newRandomKeyID is probabilistic and not proved.",
   ref="DESIGN.md section 5 C11"),
 "C19": dict(
   text="Frame obligations: for every function under contract with `assigns`, every pre-existing heap location (every base, every index incl. spare capacity, every field of every pre-existing object) outside the assigns clause is proved unchanged at every return; `fresh` obligations: results are allocated during the call. Together: no write into caller buffers and no sharing, for the functions listed in the evidence.",
   note="Covers the functions under contract only (listed in the evidence); library functions are trusted to write only what their contracts' assigns clauses say.",
   ref="DESIGN.md section 5 C19"),
 "C20": dict(
   text="Provenance proof with a ghost model of crypto/rand: the IV/nonce field of each ciphertext produced by a function under contract equals, byte for byte and in full length, one whole draw made during that call (draw counter advanced exactly as specified), and key IDs are the big-endian value of a whole 4-byte draw that was not in use.",
   note="The statistical quality of crypto/rand (independent uniform draws) is the stated assumption; no sampling is done. Covers the functions listed in the evidence.",
   ref="DESIGN.md section 5 C20"),
}

PENDING_REASON = "no obligations claimed yet: the functions this property depends on are not under contract in this snapshot of the engine (work in progress, see DESIGN.md section 10)"

def main():
    props = [json.loads(l)["id"] for l in open(os.path.join(ROOT, "properties.jsonl"))]
    try:
        hooks = subprocess.run(["git", "-C", "/repo", "log", "--format=%H %s"], capture_output=True, text=True).stdout.splitlines()
        hook_commits = [l.split()[0] for l in hooks if " verif:" in l or l.split(" ",1)[1].startswith("verif")]
    except Exception:
        hook_commits = []
    checks = []
    for pid in props:
        if pid not in CLAIMED:
            continue
        c = CLAIMED[pid]
        checks.append({
            "property_id": pid,
            "quick_cmd": f"./check prove {pid} --tier quick",
            "thorough_cmd": f"./check prove {pid} --tier thorough",
            "evidence_file": f"/verif/evidence/{pid}.json",
            "replay_cmd_template": "./check replay {path}",
            "engine": "gvc",
            "level_claimed": {"category": "proof", "text": c["text"], "design_ref": c["ref"]},
            "level_note": c["note"],
            "technique": TECH,
        })
    na = [{"property_id": p, "reason": PENDING_REASON} for p in props if p not in CLAIMED]
    m = {
        "version": 1,
        "setup_cmd": "./check build",
        "hooks": {
            "guard": "verif",
            "enable": "go build -tags verif (the only guarded files are comment-only zz_verif_contracts.go contract files and zz_verif_lemmas.go ghost code; gvc loads /repo with -tags=verif)",
            "baseline_off_cmd": "for m in $(cat /w/out/gomods.txt); do MF=$(cd /repo/$m && . /w/out/goenv.sh && gomodflag); (cd /repo/$m && go test $MF -json -vet=off -count=1 -timeout 25m ./...); done",
            "source_commits": hook_commits,
            "add_only": True,
        },
        "engines": [{"name": "gvc", "path": "/verif/engine", "serves_properties": sorted(CLAIMED), "kind_free_text": "verification-condition generator for Go (typed AST symbolic execution, modular by contract) + SMT portfolio"}],
        "checks": checks,
        "notes": "All checks share one binary (bin/gvc, built by setup_cmd from /verif/engine, offline). Contracts live in /repo/**/zz_verif_contracts.go (build tag verif). known_findings.jsonl lists recorded/fixed defects. ./check selftest runs the must-fail corpus.",
        "not_applicable": na,
    }
    json.dump(m, open(os.path.join(ROOT, "MANIFEST.json"), "w"), indent=1)
    print("wrote MANIFEST.json:", len(checks), "checks,", len(na), "not_applicable")

if __name__ == "__main__":
    main()
