#!/usr/bin/env python3
"""Regenerates /verif/MANIFEST.json from the table below (claimed properties and notes)."""
import json, os, subprocess
ROOT = os.path.dirname(os.path.dirname(os.path.abspath(__file__)))

TECH = "contract-based deductive verification: //@ contracts on the real functions, self-built VC generator (gvc: go/packages + go/ast + go/types symbolic execution, callees by contract, loop invariants), obligations discharged by z3 5.1.0 / z3 4.8.12 / cvc5 1.0.3"

CLAIMED = {
 "C10": dict(
   text="Proof (for all inputs, no bound) that every scalar routine of internal/signature/mldsa/algebra.go equals the FIPS 204 algorithm transcribed in specs/fips204.gvc on all of Z_q: reduceOnce, add, sub, neg, mul (Barrett), power2Round, scalePower2, divBy2Gamma2, decompose, highBits, lowBits, makeHint, useHint, centeredAbs, centeredMax. Obligations are generated from the current source on every run.",
   note="Trusted: crypto/subtle.ConstantTime{Select,LessOrEq,Eq} contracts (specs/stdlib.gvc, incl. their documented operand ranges as call-site obligations); the transcription of FIPS 204 Alg. 35-40 in specs/fips204.gvc; gvc and the solvers. Not covered: SHAKE, sampling, NTT as polynomial evaluation, signing/verification control flow (see DESIGN.md section 5-C10 and the evidence file).",
   ref="DESIGN.md section 5 C10"),
}

PENDING_REASON = "no obligations claimed yet: the functions this property depends on are not under contract in this snapshot of the engine (work in progress, see DESIGN.md section 10)"

def main():
    props = [json.loads(l)["id"] for l in open(os.path.join(ROOT, "properties.jsonl"))]
    try:
        hooks = subprocess.run(["git", "-C", "/repo", "log", "--format=%H %s"], capture_output=True, text=True).stdout.splitlines()
        hook_commits = [l.split()[0] for l in hooks if " verif:" in l or l.split(" ",1)[1].startswith("verif")]
    except Exception:
        hook_commits = []
    checks = []
    for pid in props:
        if pid not in CLAIMED:
            continue
        c = CLAIMED[pid]
        checks.append({
            "property_id": pid,
            "quick_cmd": f"./check prove {pid} --tier quick",
            "thorough_cmd": f"./check prove {pid} --tier thorough",
            "evidence_file": f"/verif/evidence/{pid}.json",
            "replay_cmd_template": "./check replay {path}",
            "engine": "gvc",
            "level_claimed": {"category": "proof", "text": c["text"], "design_ref": c["ref"]},
            "level_note": c["note"],
            "technique": TECH,
        })
    na = [{"property_id": p, "reason": PENDING_REASON} for p in props if p not in CLAIMED]
    m = {
        "version": 1,
        "setup_cmd": "./check build",
        "hooks": {
            "guard": "verif",
            "enable": "go build -tags verif (the only guarded files are comment-only zz_verif_contracts.go contract files and zz_verif_lemmas.go ghost code; gvc loads /repo with -tags=verif)",
            "baseline_off_cmd": "for m in $(cat /w/out/gomods.txt); do MF=$(cd /repo/$m && . /w/out/goenv.sh && gomodflag); (cd /repo/$m && go test $MF -json -vet=off -count=1 -timeout 25m ./...); done",
            "source_commits": hook_commits,
            "add_only": True,
        },
        "engines": [{"name": "gvc", "path": "/verif/engine", "serves_properties": sorted(CLAIMED), "kind_free_text": "verification-condition generator for Go (typed AST symbolic execution, modular by contract) + SMT portfolio"}],
        "checks": checks,
        "notes": "All checks share one binary (bin/gvc, built by setup_cmd from /verif/engine, offline). Contracts live in /repo/**/zz_verif_contracts.go (build tag verif). known_findings.jsonl lists recorded/fixed defects. ./check selftest runs the must-fail corpus.",
        "not_applicable": na,
    }
    json.dump(m, open(os.path.join(ROOT, "MANIFEST.json"), "w"), indent=1)
    print("wrote MANIFEST.json:", len(checks), "checks,", len(na), "not_applicable")

if __name__ == "__main__":
    main()
