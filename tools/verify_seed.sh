#!/bin/bash
# usage: tools/verify_seed.sh <seed-name> <demo-pkg-dir> <run-regex> <existing-test-pkgs...>
# Confirms in a scratch worktree (pristine commit): patch applies, builds, demo FAILS with patch and PASSES without,
# and the listed existing test packages pass with the patch.
. /verif/env.sh
name=$1; dir=$2; rx=$3; shift 3
wt=/tmp/vs_$name
git -C /repo worktree remove --force $wt 2>/dev/null
git -C /repo worktree add -q --detach $wt b5b0995 || exit 2
trap "git -C /repo worktree remove --force $wt" EXIT
cd $wt
cp /verif/seeded/$name/demo_test.go $dir/zz_demo_test.go
echo "--- demo WITHOUT patch (must pass)"
go test -vet=off -count=1 -run "$rx" ./$dir/ 2>&1 | tail -3
git apply /verif/seeded/$name/patch.diff || { echo "APPLY FAILED"; exit 2; }
echo "--- build WITH patch"; go build ./... 2>&1 | tail -3
echo "--- demo WITH patch (must fail)"
go test -vet=off -count=1 -run "$rx" ./$dir/ 2>&1 | tail -4
rm $dir/zz_demo_test.go
echo "--- existing tests WITH patch"
go test -vet=off -count=1 "$@" 2>&1 | grep -v "^ok\|no test files" | tail -8
echo "--- done"
