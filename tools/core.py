#!/usr/bin/env python3
"""unsat core of a dumped gvc query: tools/core.py file.smt2 [solver]"""
import re,sys,subprocess
f=sys.argv[1]; solver=sys.argv[2] if len(sys.argv)>2 else 'z3-new'
src=open(f).read().split('\n')
out=['(set-option :produce-unsat-cores true)']; n=0; asserts={}
for l in src:
    if l.startswith('(assert '):
        n+=1; asserts[n]=l
        out.append('(assert (! %s :named a%d))'%(l[8:-1],n))
    elif l.startswith('(check-sat'):
        out.append(l); out.append('(get-unsat-core)')
    elif l.startswith('(get-'): pass
    else: out.append(l)
open('/tmp/core.smt2','w').write('\n'.join(out))
r=subprocess.run([solver,'-T:60','/tmp/core.smt2'],capture_output=True,text=True).stdout.split('\n')
print(r[0])
if r[0]=='unsat':
    for m in sorted(int(x) for x in re.findall(r'a(\d+)',r[1])):
        print(m, asserts[m][:int(sys.argv[3]) if len(sys.argv)>3 else 500]); print()
